#!/venv/bin/python
"""Regenerates /verif/MANIFEST.json from the table below (single source of truth)."""
import json
import os

VERIF = os.path.dirname(os.path.dirname(os.path.abspath(__file__)))

# id -> (category, technique, level text, level note, design ref)
CHECKS = {
    "C09": (
        "model_checking",
        "explicit-state exhaustive exploration of the real group_notes/count_* over a row-by-row construction tree of note streams x the full option product, compared in every state with a reference model",
        "Every note stream on small grids (up to 2x4 over 5 cell kinds, 3x3, 1x4 over all nine types, 6x1, 4x2) is built row by row; in every node the real group_notes and count_* are run under every subset of present note types x 3 same-beat modes x join off/on x 3x3 orphan policies x same_beat_minimum 1..4 and compared with an independent model of the documented rules; plus every corpus chart. Exhaustive within those bounds, nothing sampled.",
        "Trusted: the reference model mc/models/notes.py as the reading of the documentation; streams are single-player, position-sorted, one note per cell. Which RAISE-policy orphan is reported first is not claimed.",
        "DESIGN.md 5 (C09)",
    ),
}

PLANNED = "check not built yet (work in progress this round; design in DESIGN.md section 5)"


def main():
    props = [json.loads(l) for l in open(os.path.join(VERIF, "properties.jsonl"))]
    checks = []
    na = []
    for p in props:
        pid = p["id"]
        if pid in CHECKS and os.path.exists(os.path.join(VERIF, "mc", "drivers", pid.lower() + ".py")):
            cat, tech, text, note, ref = CHECKS[pid]
            checks.append(
                {
                    "property_id": pid,
                    "quick_cmd": f"./check {pid} --tier quick",
                    "thorough_cmd": f"./check {pid} --tier thorough",
                    "evidence_file": f"/verif/evidence/{pid}.json",
                    "replay_cmd_template": f"./check {pid} --replay {{path}}",
                    "engine": "mc",
                    "level_claimed": {"category": cat, "text": text, "design_ref": ref},
                    "level_note": note,
                    "technique": tech,
                }
            )
        else:
            na.append({"property_id": pid, "reason": PLANNED})
    manifest = {
        "version": 1,
        "setup_cmd": "/venv/bin/python -W ignore -m mc.selftest",
        "hooks": {
            "guard": "SIMFILE_VERIF",
            "enable": "no source hooks are needed: every seam (filesystem=, file objects) is public API; checks import simfile from $VERIF_SIMFILE_SRC (default /repo) in a fresh process",
            "baseline_off_cmd": "cd /repo && /venv/bin/python -m pytest -ra -q -p no:cacheprovider --timeout=900 --continue-on-collection-errors",
            "source_commits": [],
            "add_only": True,
        },
        "engines": [
            {
                "name": "mc",
                "path": "/verif/mc",
                "serves_properties": [c["property_id"] for c in checks],
                "kind_free_text": "hand-written explicit-state explorer (Python): bounded exhaustive enumeration of inputs / operation histories / configurations / fault points on the real implementation, with reference models as oracles, 16-way process sharding, replay files",
            }
        ],
        "checks": checks,
        "notes": "Run from /verif. ./check <ID> [--tier quick|thorough] [--replay FILE]; VERIF_SEED picks representatives/shard rotation only (enumeration is exhaustive for every seed). Known findings: /verif/known_findings.json. Seeded changes used to validate detection: /verif/seeded/.",
        "not_applicable": na,
    }
    with open(os.path.join(VERIF, "MANIFEST.json"), "w") as f:
        json.dump(manifest, f, indent=1)
        f.write("\n")
    print(f"MANIFEST.json: {len(checks)} checks, {len(na)} not yet claimed")


if __name__ == "__main__":
    main()
