#!/venv/bin/python
"""Regenerates /verif/MANIFEST.json from the table below (single source of truth)."""
import json
import os

VERIF = os.path.dirname(os.path.dirname(os.path.abspath(__file__)))

# id -> (category, technique, level text, level note, design ref)
CHECKS = {
    "C09": (
        "model_checking",
        "explicit-state exhaustive exploration of the real group_notes/count_* over a row-by-row construction tree of note streams x the full option product, compared in every state with a reference model",
        "Every note stream on small grids (up to 2x4 over 5 cell kinds, 3x3, 1x4 over all nine types, 6x1, 4x2) is built row by row; in every node the real group_notes and count_* are run under every subset of present note types x 3 same-beat modes x join off/on x 3x3 orphan policies x same_beat_minimum 1..4 and compared with an independent model of the documented rules; plus every corpus chart. Exhaustive within those bounds, nothing sampled. Scale layer: long streams (a hold open over / a roll interrupted after 1023..4097 notes, thousands of two- and three-note rows, 1500 short holds; thorough up to 65537).",
        "Trusted: the reference model mc/models/notes.py as the reading of the documentation; streams are single-player, position-sorted, one note per cell. Which RAISE-policy orphan is reported first is not claimed.",
        "DESIGN.md 5 (C09)",
    ),

    "C07": (
        "model_checking",
        "explicit-state exhaustive enumeration of note-data texts (cell grids, format variations, keysound rows, note pairs) decoded by the real NoteData and compared with an independent reader model",
        "Every grid of up to 6 (quick) / 8 (thorough) cells over 0,1,2,3,M, every row of <=4 cells over all nine note characters, every rows-per-measure shape (singles, pairs, triples over 13 row counts) x 1-3 players x 108 formatting styles, all 8^4 keysound rows, 1..16 columns, and all ordered pairs of 72 notes under all comparison operators are decoded by the real code and compared with an independent reader; exhaustive within these bounds. Scale: rows of 1..16 columns with every cell keysounded (indices of 1..6 digits), measures of 256/384/768 rows. A pass paused while another runs; note data beyond 2^20 characters.",
        "Trusted: mc/models/notes.py read_notedata as the reading of 'one note per non-zero cell'; texts are well-formed (no blank line inside a measure, known note characters).",
        "DESIGN.md 5 (C07)",
    ),
    "C08": (
        "model_checking",
        "explicit-state exhaustive construction tree over position-sorted note streams (note by note) through the real NoteData.from_notes, checked in every node against an independent reader and a structure model; decode/re-encode stability on generated texts",
        "Every stream of up to 3-4 notes over 3 players x 11 beats (tick-aligned, thirds, fifths, sevenths, several measures) x 1-3 columns, all type/keysound variants on 1-2 note streams, 1..16 columns, the empty stream, every pair of 17 beat denominators (triples of 10) in one measure, and decode/re-encode of generated and corpus texts; every note data object is read again (abandoned pass, two iterators) and fed back as generator and as itself; in every node: notes read back identical, column count, canonical structure (player sections, measures, 4 x LCM rows), stability. Scale: fully keysounded rows of 1..16 columns, notes a thousand measures out. A pass paused while another runs; (thorough) a beat with a denominator above a million.",
        "Trusted: mc/models/notes.py (independent reader, expected_structure). Streams satisfy from_notes' documented preconditions.",
        "DESIGN.md 5 (C08)",
    ),
    "C10": (
        "model_checking",
        "explicit-state exhaustive construction tree over note streams x the full option product through the real group_notes + ungroup_notes, compared with the model's expected stream; exhaustive hand-built grouped sequences",
        "Every stream on small grids (incl. keysounded heads) x include sets x 3 same-beat modes x join off/on x 3x3 orphan policies x 3 ungroup policies must come back as the included notes minus exactly the orphans the model says were dropped; every hand-built sequence of one or two joined holds plus <=2 plain notes on a 2x4 grid x groupings x policies must raise / pass / drop as documented. Scale layers: the long streams of C09; every interleaving of up to 6 (thorough 7) holds (all 10395 perfect matchings).",
        "Trusted: mc/models/notes.py join_model (validated against group_notes by C09). Tails carry no keysound index.",
        "DESIGN.md 5 (C10)",
    ),
    "C11": (
        "model_checking",
        "explicit-state exhaustive construction tree over timing-event sets on small beat grids through the real TimingEngine, every state compared with an exact rational timeline model under every EventTag; metamorphic transitions (offset shift, redundant BPM insertion)",
        "All sets of up to 3 (quick) / 4 (thorough) events (redundant/different BPM change, stop, delay, warp of 1-3 steps) on 4-point coarse and fine (adjacent-tick) grids x 3 offsets, dyadic and decimal value families: time_at at ~40 probe beats x 7 tags within 1e-9 of the exact model, monotone in (beat, tag), bpm_at exact, offset shift and redundant-BPM insertion invariance; corpus timing data. Scale layer: special timelines (3..8 BPM changes with a stop and a delay inside one warp, warps of 8 and 20 beats, queries and events at beats 133..20000, BPMs 1..2000 and with many digits, offsets of an hour). The special timelines also under a 6-digit decimal context; half-tick warp lengths; BPMs equal as floats.",
        "Trusted: mc/models/timeline.py as the specification; domain as stated in the property (first BPM at 0, positive values, sorted tick-aligned beats).",
        "DESIGN.md 5 (C11)",
    ),
    "C12": (
        "model_checking",
        "explicit-state exhaustive construction tree over timing-event sets through the real TimingEngine.beat_at at all boundary, in-pause and in-between times under every tag, against sup/inf definitions on the exact rational timeline; independence transitions (redundant BPM changes)",
        "Same event-set space as C11 plus a shifted grid; asked times = the engine's own time_at of every probe beat and tag, 3-5 times inside every pause, points between event times: round trip on tick-aligned unskipped beats, paused beat inside pauses, WARP/default boundary answers (where float time is exact), half-tick nearness, monotonicity per tag, independence from 1..3 added redundant BPM changes. Scale layer: the special timelines of C11. Likewise under a 6-digit decimal context.",
        "Trusted: mc/models/timeline.py (B_default = sup{b: arrive(b)<=t}, B_warp = inf{b: depart(b)>=t}); exact rounding ties and float boundary times are treated leniently as the property allows.",
        "DESIGN.md 5 (C12)",
    ),
    "C13": (
        "model_checking",
        "explicit-state exhaustive construction tree over timing-event sets; hittable() on every probe tick and time_notes over all note types x players x keysounds x grid rows x 3 options through the real code, against the timeline and notes models",
        "Same event-set space as C11: hittable on every tick around the events equals 'in the warp union and no stop/delay on the beat'; for every timeline with a warp, time_notes of 9-type x 8-row x 3-player texts (keysounded on alternating cells) under the three UnhittableNotes options equals the model's list (order, times, notes unchanged except type for fakes); corpus charts. Scale layer: the special timelines of C11 with a note row on every whole probe beat up to beat 8000. Likewise under a 6-digit decimal context.",
        "Trusted: mc/models/timeline.py and mc/models/notes.py.",
        "DESIGN.md 5 (C13)",
    ),

    "C14": (
        "model_checking",
        "exhaustive product enumeration (odometer) over the tick grid, decimal/float lattices, rational pairs x operators x operand types, event lists and whitespace arrangements through the real Beat/BeatValues/TimingData, against Python's Fraction/Decimal arithmetic",
        "Every tick multiple within +-2000 beats (thorough +-20000 and powers of ten to 1e7) round-trips through its three-decimal text, float and Decimal; every decimal string k/1000, k/10^4, k/10^5 and float n/960, n/1024, n/7 in range snaps to a tick within 1/96; all ordered pairs of 95 rationals under + - * / % divmod in five operand-type combinations, unary operators and constructors are exact and return Beat; event lists, blank strings, 16^n whitespace arrangements, and TimingData attribute sources. Magnitudes: rationals with numerators/denominators of 10^3..10^18, values of 10..29 significant digits. Subclass instances of str / Decimal / float.",
        "Trusted: Python fractions/decimal. Exact ties between two ticks may round either way.",
        "DESIGN.md 5 (C14)",
    ),
    "C15": (
        "model_checking",
        "exhaustive product enumeration of the split-timing configuration space (kind x version x chart kind x {absent,empty,non-empty}^11, offsets, DISPLAYBPM spellings) through the real TimingData/displaybpm with source-revealing sentinel values",
        "Quick: all vectors with <=3 non-absent chart timing properties plus corners; thorough: all 3^11 vectors, for 2 simfile kinds x 7 versions x 3 chart kinds: all five TimingData attributes must come from the one source the rule selects. OFFSET/DISPLAYBPM {absent, empty, value} on both sides x ignore_specified x all DISPLAYBPM spellings of <=3 tokens x BPMS lists: offset default 0, displayed BPM static/range/random or BPMS min/max of the selected source. Magnitudes: BPMS with 100000.001 / 0.001 / 2000, DISPLAYBPM of 29 digits. Scientific notation in BPMS; the simfile's version edited in place (by key / by attribute, across 0.7 and back) between readings; a TimingData edited in place before another is built.",
        "Trusted: the rule as stated in the property. Blank-padded DISPLAYBPM spellings are accepted either way; chosen source has a non-empty BPMS for the display clause.",
        "DESIGN.md 5 (C15)",
    ),

    "C01": (
        "model_checking",
        "explicit-state exploration of the real SM serializer/parser: exhaustive value strings in every context, and breadth-first edit histories with state matching (content, order, string identity) in lock-step with a dictionary model; round-trip oracle in every state",
        "Every string of length <=4 (quick) / <=6 (thorough) over the MSD metacharacter alphabet in 12 contexts (value, ATTACKS, DISPLAYBPM, key, chart fields, note data, extra components), thorough also every BMP code point and awkward pairs; all edit histories of depth <=3/4 over 38 operations from the bare object, the empty simfile, blank() and the corpus file: in every state serialize -> strict parse gives the same items/charts/extra components, same text again, accepted and auto-detected, documented NOTES/ATTACKS parameter structure. Scale layers: a de Bruijn walk (every ordered pair of operations consecutively, ~2000 steps on one live object), scale simfiles (one-line lists of 7..700 entries, each metacharacter at every offset before 4096/8192, 17/130/1100 charts, 400 properties), all 6^6 assignments of kinds of value to the six chart fields. Vocabulary layer: ~90 values that mean something to StepMania, Python or a filesystem (old and new difficulty names, attack syntax, numbers in other spellings, entity / escape / format / path look-alikes, key names, Unicode normal forms) in every value and key context.",
        "Trusted: msdparser as tokenizer/escaper (its escaping gaps are detected operationally, must match a listed pattern, are excluded and reported as known findings); mc/models/msd.py.",
        "DESIGN.md 5 (C01)",
    ),
    "C02": (
        "model_checking",
        "explicit-state exploration of the real SSC serializer/parser: exhaustive value strings in SSC contexts, exhaustive chart alphabet (key orderings x NOTES/NOTES2 position x values incl. None, interned strings, equal copies and the same object), breadth-first edit histories with state matching incl. string identity",
        "Value strings as C01 in 8 SSC contexts; every ordering of <=3/4 chart keys with NOTES or NOTES2 at every position and every value kind (about 10^5..10^6 charts); edit histories of depth <=3/4 over 42 operations from bare, empty, blank and corpus simfiles: reload gives the same properties with note data last, second serialization identical, nothing dropped or renamed by value equality/identity, NOTEDATA..notes parameter structure, SSCChart.from_str(str(chart)) round trip. Scale layers: the de Bruijn walk and the scale simfiles of C01 in SSC form (also chart-level lists, note data beyond 8192 characters). Vocabulary layer as C01, also as VERSION (alone and with a chart that has a DESCRIPTION but no CHARTNAME).",
        "Trusted: msdparser (gaps excluded operationally); mc/models/msd.py. States whose charts do not have exactly one of NOTES/NOTES2 are explored but not judged.",
        "DESIGN.md 5 (C02)",
    ),
    "C03": (
        "model_checking",
        "exhaustive enumeration of texts (parameter-piece sequences, symbol strings) x strictness x every entry point of the real loader (strings, streams, iterators, real files on MemoryFS and the native filesystem under eight names, class constructors, stand-alone chart parsers), compared with the documented rules applied to the trusted tokenizer's parameters",
        "Every sequence of <=3/4 of 25 parameter pieces (also behind a BOM), every text of <=5/6 symbols over MSD metacharacters, x strict True/False x ~50 entry-point/name combinations; SSCChart.from_str on 5 heads x <=3 of 11 pieces; SMChart.from_msd/from_str on all component lists of length <=8; corpus files and variants. The loaded type, ordered items and charts (or the exception class) must equal the model's for every entry point. Scale layers: preambles and values of 63..70000 characters, scale texts and 2/3/4-byte characters across byte 4096/8192 through every entry point.",
        "Trusted: msdparser.parse_msd as tokenizer; mc/models/msd.py as the documented rules; a key-only ATTACKS/DISPLAYBPM may be None or ''; texts ending in an unpaired backslash (tokenizer assertion) are excluded and counted.",
        "DESIGN.md 5 (C03)",
    ),
    "C04": (
        "model_checking",
        "exhaustive enumeration of texts (as C03) and systematic corpus mutations (every truncation / line deletion on a stride, splices) through the real load -> save -> load -> save cycle under three loaders and both strictness values",
        "For every text the loader accepts (auto-detected and forced SM/SSC, strict and lenient): str() must not raise, the strict reload has the same items in order and the same charts (SSC note data last), the second serialization is byte-identical and a second cycle is a no-op; corpus: whole files, truncations and deletions at line boundaries (stride 40 quick / every line thorough), splices between all file pairs. Scale layer: the scale texts (long one-line lists, metacharacters around 4096/8192, 1100 charts, 400 properties) x strict x 2 loaders. Vocabulary texts (every token as value, multi-value component, chart field / property, VERSION and key).",
        "Trusted: msdparser (gaps excluded operationally and counted); SSC charts without note data are outside the domain.",
        "DESIGN.md 5 (C04)",
    ),

    "C18": (
        "model_checking",
        "explicit-state breadth-first search to a fixpoint over closed state graphs (all ordered partial assignments of standard/alias/unrelated key x all operations) on real simfile and chart objects in lock-step with a dictionary model; likewise for the SM chart over {values}^6",
        "For every known property of SMSimfile, SSCSimfile and SSCChart (aliases stops/FREEZES, bgchanges/ANIMATIONS, notes/NOTES2) every reachable model state x every operation (attribute get/set/del, key get/set/del/in on standard, alias and unrelated key, items) is executed on the real object: result or exception class, ordered items, attribute precedence, equality and serialization against an object built directly from the model state, serialization leaving the mapping untouched, and inequality of the same pairs in another insertion order. Because the graph closes, this covers histories of any length over the alphabet. SM chart: all reachable states over {values}^6 under attribute/key/lower-case/unrelated-key operations, setdefault, update, pop, popitem. Scale layers: a transition tour (every transition of the closed graph in one history on one live object), values of 150/1200/9000 characters. NOTEDATA as a stored chart key; SM charts differing in one field by case or one character.",
        "Trusted: the dictionary + alias model (mc/drivers/c18.py m_apply). For a case variant of an SM field name 'refused' or 'assigned to the field' are both accepted; clear()/move_to_end() are outside the statement's operation alphabet.",
        "DESIGN.md 5 (C18)",
    ),

    "C05": (
        "model_checking",
        "exhaustive enumeration of byte payloads x tried-encoding lists through the real open functions, and of content class x file-name configuration x encoding list x filesystem x edit script through the real mutate(), each run followed by a whole-filesystem comparison with a bytes/codec model and a no-op second run",
        "Detection: every 1-byte payload (MemoryFS and native) and 2-byte payloads (all with a high lead byte in thorough) embedded in .sm/.ssc files x 5 tried lists + explicit encoding: reported encoding = first of the list that decodes the whole file, loaded simfile = decoded text, UnicodeDecodeError only when none decodes. mutate: one payload per decodability signature x 2 layouts x {.sm,.ssc} x output x backup {none, other, =input, =output} x 3 encoding configurations x 2 filesystems x edit scripts x output/backup names free or taken by older files x absolute or cwd-relative names (native); multi-byte characters at every offset around buffer sizes 512..8192 (thorough: 256..131072): output/backup content, untouched input and other files, refused clashes, byte-stable no-op re-run. Scale layer: every representative payload repeated 2..1000 times. Bystander files named like temporary files; backup names with % signs.",
        "Trusted: Python codecs; MemoryFS and the OS as stores. Values contain no bare carriage return.",
        "DESIGN.md 5 (C05)",
    ),
    "C06": (
        "fault_enumeration",
        "exhaustive fault enumeration on the real mutate() save path through a call-counting, fault-injecting filesystem seam: every body position x exception class, serialization and encoding faults at several positions, and an injected failure at every numbered open/write/flush/close call of the fault-free run",
        "For {MemoryFS, native} x {.sm,.ssc} x 4 detected encodings x layout x output name (none, another file, the input's own name, the input's name respelled) x backup x names free or taken by older files: 8 exception classes at every position of every edit script (filesystem unchanged; CancelMutation swallowed, everything else propagates as the same object); unserializable and unencodable simfiles (input bytes intact); a failure at every call index k of the recorded call sequence (input intact unless it had been opened for writing; a requested backup complete before the output is opened; the injected exception reaches the caller). Scale layer: files of 70 KB and 1.1 MB with a reduced fault enumeration. Body exceptions of the classes the library itself handles; errors= passed through to open().",
        "Trusted: the seam only counts and fails calls (mc/fsseam.py); faults at call granularity, not power loss; no atomic replace is claimed once the input has been opened for writing.",
        "DESIGN.md 5 (C06)",
    ),
    "C16": (
        "model_checking",
        "explicit-state construction tree over SM source simfiles (optional-property subsets x timing spellings x chart lists) x simfile/chart templates through the real sm_to_ssc, every state compared with a conversion model and with the library's own timing and note readers",
        "All subsets of <=3/4 of 15 optional source properties (ANIMATIONS alias, SSC-only keys already present, unknown and key-only keys, empty / blank / key-only values of properties with an SSC default) over OFFSET/BPMS/STOPS x 6 chart lists x 6 simfile templates (none, empty, bare, blank, edited, with a chart) x 6 chart templates (none, empty, blank, extra keys, empty timing keys, NOTES2 spelling), the corpus SM file x 36 template pairs, negative-timing sources: exact key set and values, chart order and fields, TimingData and NoteData equality, source/templates unmodified, no shared mutable objects (also by mutating the result), serialization reloads equal, NotImplementedError for negative BPM/stop. Magnitudes: a BPM of 10^7, a one-line list of 90 BPM changes. Vocabulary values in every source field; a chart template with key look-alikes.",
        "Trusted: mc/models/convert.py; blank templates' content read from the library. Key order of the result is not claimed. FREEZES sources and partial chart templates are known findings.",
        "DESIGN.md 5 (C16)",
    ),
    "C17": (
        "model_checking",
        "exhaustive product enumeration of SSC-only property x value state x behaviour mapping (all 5^5 in thorough), ordered property pairs, templates, corpus files x all 4^5 mappings through the real ssc_to_sm, compared with a policy model; round trip over the C16 source tree",
        "Every SSC-only property (16 simfile-level, 17 chart-level) x {absent, empty, default, default padded, non-default} x mappings; ordered pairs for the first-offending-property clause; templates; corpus SSC files x 1024 full mappings; ssc_to_sm(sm_to_ssc(sm)) equality on original keys: only the three documented outcomes occur, the exception names the first offending property, results obey the policy, nothing is modified or shared. Keys resembling SSC-only names (blanks at the edges, other letter case).",
        "Trusted: property-kind table, default behaviours and default values pinned from the library's tables (mc/models/convert.py). Chart keys the SM chart cannot hold are known findings (bare KeyError).",
        "DESIGN.md 5 (C17)",
    ),
    "C19": (
        "model_checking",
        "exhaustive enumeration of directory trees (subsets of a name alphabet, multisets of pack children) x every listing order offered by a filesystem seam x options, on MemoryFS and the native filesystem, through the real SimfileDirectory / SimfilePack / opendir / openpack, compared with a tree model",
        "Song directories: every subset of <=3/4 of 10 names (mixed-case extensions, near misses, other files) x all listing orders x ignore_duplicate x trailing slash; packs: every multiset of <=3/4 of 11 child kinds (sm, ssc, both, duplicates, stray text, empty, near-miss only, nested, loose file, loose image, CP932 file) x listing orders x ignore_duplicate x strict x encoding: paths, SSC preference, duplicate error / first listed, FileNotFoundError, exact pack membership, opendir/openpack agreement, loader options reaching every file; directories and packs also named relative to the current directory; one directory / pack object opened along every history of <=3/4 calls over default/strict/lenient (answers equal a fresh object's, new simfile object per call). Scale layer: directories of 130/300 (thorough 1100) entries with the simfile at positions 1, 2, 128..130, 256, 257 and last, alone and in a pack. Side-file names (._a.sm, ~b.ssc) and directories with odd names (~, $HOME, %d, {0} ...), also relative to the current directory.",
        "Trusted: MemoryFS and the OS; the seam only permutes listings (mc/fsseam.py).",
        "DESIGN.md 5 (C19)",
    ),
    "C20": (
        "model_checking",
        "exhaustive enumeration of directory contents (subsets of a 24-name alphabet) x simfile property states x listing orders on MemoryFS and the native filesystem through the real Assets / SimfilePack.banner, compared with a pattern model that accepts any matching entry",
        "Every subset of <=2/3 names hitting, nearly hitting and missing each documented pattern, simfile given or loaded, all listing orders; per asset kind 9 property states (absent, empty simfile object, empty, exact, other case, missing, sub-directory in other case, wrong-case sub-directory, missing sub-directory) (plus './x' and 'sub/../x' spellings) x subsets of 6 directory extras x directory spellings (plain, '/./', '/../', doubled separator); pack banners inside/beside (every set of <=2 of 15 neighbours incl. look-alike names) x orders x packs named relative to the current directory: answer is the named file (case-insensitive) else a pattern match else None, exists, normalized, stable on re-read; banner by extension priority. Also a missing file with a 256-character name, and two properties on one loader (30 ordered kind pairs x 18 state pairs x both ask orders). Simfiles whose own names hit a pattern; composed vs decomposed Unicode names.",
        "Trusted: mc/models/assets.py. Which of several matching entries is returned is not claimed; the disc image lookup is not claimed.",
        "DESIGN.md 5 (C20)",
    ),
}

PLANNED = "check not built yet (work in progress this round; design in DESIGN.md section 5)"


def main():
    props = [json.loads(l) for l in open(os.path.join(VERIF, "properties.jsonl"))]
    checks = []
    na = []
    for p in props:
        pid = p["id"]
        if pid in CHECKS and os.path.exists(os.path.join(VERIF, "mc", "drivers", pid.lower() + ".py")):
            cat, tech, text, note, ref = CHECKS[pid]
            checks.append(
                {
                    "property_id": pid,
                    "quick_cmd": f"./check {pid} --tier quick",
                    "thorough_cmd": f"./check {pid} --tier thorough",
                    "evidence_file": f"/verif/evidence/{pid}.json",
                    "replay_cmd_template": f"./check {pid} --replay {{path}}",
                    "engine": "mc",
                    "level_claimed": {"category": cat, "text": text, "design_ref": ref},
                    "level_note": note,
                    "technique": tech,
                }
            )
        else:
            na.append({"property_id": pid, "reason": PLANNED})
    manifest = {
        "version": 1,
        "setup_cmd": "/venv/bin/python -W ignore -m mc.selftest",
        "hooks": {
            "guard": "SIMFILE_VERIF",
            "enable": "no source hooks are needed: every seam (filesystem=, file objects) is public API; checks import simfile from $VERIF_SIMFILE_SRC (default /repo) in a fresh process",
            "baseline_off_cmd": "cd /repo && /venv/bin/python -m pytest -ra -q -p no:cacheprovider --timeout=900 --continue-on-collection-errors",
            "source_commits": [],
            "add_only": True,
        },
        "engines": [
            {
                "name": "mc",
                "path": "/verif/mc",
                "serves_properties": [c["property_id"] for c in checks],
                "kind_free_text": "hand-written explicit-state explorer (Python): bounded exhaustive enumeration of inputs / operation histories / configurations / fault points on the real implementation, with reference models as oracles, 16-way process sharding, replay files",
            }
        ],
        "checks": checks,
        "notes": "Run from /verif. ./check <ID> [--tier quick|thorough] [--replay FILE]; VERIF_SEED picks representatives/shard rotation only (enumeration is exhaustive for every seed). Known findings: /verif/known_findings.json. Seeded changes used to validate detection: /verif/seeded/.",
        "not_applicable": na,
    }
    with open(os.path.join(VERIF, "MANIFEST.json"), "w") as f:
        json.dump(manifest, f, indent=1)
        f.write("\n")
    print(f"MANIFEST.json: {len(checks)} checks, {len(na)} not yet claimed")


if __name__ == "__main__":
    main()
