#!/bin/sh
# Runs all twenty checks (default: quick tier) one after the other; prints exit code, wall time and VIOLATION count each.
# Usage: tools/quick_all.sh [tier]      (evidence and replays go to VERIF_OUT if set, else to /verif)
cd "$(dirname "$0")/.." || exit 2
tier=${1:-quick}
rc_all=0
for i in 01 02 03 04 05 06 07 08 09 10 11 12 13 14 15 16 17 18 19 20; do
  s=$(date +%s)
  out=$(./check C$i --tier "$tier" 2>&1); rc=$?
  e=$(date +%s)
  echo "C$i rc=$rc $((e-s))s violations=$(echo "$out" | grep -c '^VIOLATION')"
  [ $rc -ne 0 ] && rc_all=1
done
exit $rc_all
