#!/venv/bin/python
"""
Regression run over every stored seeded change (/verif/seeded/<name>/):

  tools/seeded_regress.py [-j N] [name-prefix ...]

For each change: scratch worktree of /repo (under /tmp, removed afterwards), apply patch.diff, run the
checks that detected it when it was evaluated (meta.json "detected_by"; fail-fast mode) and demand that
at least one of them still reports a violation.  Writes /verif/seeded/REGRESSION.json and exits 1 if a
change is no longer detected.  The suite / demo confirmation is not repeated here (tools/seeded.py did it).
"""
import json
import os
import subprocess
import sys
import tempfile
import time
from concurrent.futures import ThreadPoolExecutor

VERIF = os.path.dirname(os.path.dirname(os.path.abspath(__file__)))


def sh(cmd, cwd=None, env=None, timeout=3600):
    p = subprocess.run(cmd, cwd=cwd, env=env, capture_output=True, text=True, timeout=timeout)
    return p.returncode, p.stdout + p.stderr


def one(name, nproc):
    d = os.path.join(VERIF, "seeded", name)
    meta = json.load(open(os.path.join(d, "meta.json")))
    checks = meta.get("detected_by") or [meta["property"]]
    wt = tempfile.mkdtemp(prefix="regress-", dir="/tmp")
    os.rmdir(wt)
    outdir = tempfile.mkdtemp(prefix="regress-out-", dir="/tmp")
    res = {"checks": {}, "detected": False}
    rc, out = sh(["git", "-C", "/repo", "worktree", "add", "--detach", wt, "HEAD"])
    if rc:
        return name, {"error": out[-300:], "detected": False}
    try:
        rc, out = sh(["git", "apply", os.path.join(d, "patch.diff")], cwd=wt)
        if rc:
            return name, {"error": "patch does not apply: " + out[-300:], "detected": False}
        for c in checks:
            env = dict(os.environ, VERIF_SIMFILE_SRC=wt, VERIF_OUT=outdir, VERIF_FAILFAST="1", VERIF_NPROC=str(nproc))
            t0 = time.time()
            tier = (meta.get("checks_run", {}).get(c) or {}).get("tier", "quick")  # a few changes are only in reach of the thorough tier
            rc, out = sh([os.path.join(VERIF, "check"), c, "--tier", tier], cwd=VERIF, env=env)
            viol = sum(1 for l in out.splitlines() if l.startswith("VIOLATION"))
            res["checks"][c] = {"exit": rc, "tier": tier, "violation_lines": viol, "wall_s": round(time.time() - t0, 1)}
            if rc == 1 and viol:
                res["detected"] = True
                break
            if rc not in (0, 1):
                res["checks"][c]["output_tail"] = out[-400:]
    finally:
        sh(["git", "-C", "/repo", "worktree", "remove", "--force", wt])
        sh(["rm", "-rf", outdir])
    return name, res


def main():
    args = sys.argv[1:]
    jobs = 2
    if args[:1] == ["-j"]:
        jobs = int(args[1])
        args = args[2:]
    names = sorted(n for n in os.listdir(os.path.join(VERIF, "seeded")) if os.path.exists(os.path.join(VERIF, "seeded", n, "meta.json")))
    if args:
        names = [n for n in names if any(n.startswith(a) for a in args)]
    nproc = max(2, 16 // jobs)
    results = {}
    with ThreadPoolExecutor(jobs) as ex:
        for name, res in ex.map(lambda n: one(n, nproc), names):
            results[name] = res
            print(name, "detected" if res["detected"] else "NOT DETECTED", res.get("checks") or res.get("error"), flush=True)
    head = sh(["git", "-C", "/repo", "rev-parse", "--short", "HEAD"])[1].strip()
    out = {"at": time.strftime("%Y-%m-%dT%H:%M:%SZ", time.gmtime()), "repo_head": head, "changes": len(results),
           "detected": sum(1 for r in results.values() if r["detected"]), "results": results}
    if not args:
        with open(os.path.join(VERIF, "seeded", "REGRESSION.json"), "w") as f:
            json.dump(out, f, indent=1, sort_keys=True)
    print(f"{out['detected']} of {out['changes']} seeded changes detected")
    return 0 if out["detected"] == out["changes"] else 1


if __name__ == "__main__":
    sys.exit(main())
