#!/venv/bin/python
"""
Replays the concrete case of every record in known_findings.json through the driver's check_case()
(no explorer involved):  fixed records must pass on the tree under test; known records must still fail.
Usage:  VERIF_SIMFILE_SRC=<tree> tools/replay_findings.py     (default tree: /repo)
Exit 0 when every fixed record passes and prints one line per record.
"""
import importlib
import json
import os
import sys

VERIF = os.path.dirname(os.path.dirname(os.path.abspath(__file__)))
sys.path.insert(0, VERIF)
os.environ.setdefault("VERIF_OUT", "/tmp/replay-findings-out")
from mc import core  # noqa: E402


def main():
    core.import_simfile()
    import signal
    signal.signal(signal.SIGPROF, core._on_alarm)
    recs = json.load(open(os.path.join(VERIF, "known_findings.json")))
    bad = 0
    for r in recs:
        drv = importlib.import_module(f"mc.drivers.{r['property'].lower()}")
        try:
            if r["status"] == "known" and hasattr(drv, "probe"):
                how = drv.probe(r["probe"])
                fails = [how] if how else []
            else:
                fails = drv.check_case(r["probe"])
        except Exception as e:
            fails = [f"{type(e).__name__}: {e}"]
        state = "FAILS" if fails else "passes"
        ok = (r["status"] == "fixed" and not fails) or (r["status"] == "known" and fails)
        if r["status"] == "fixed" and fails:
            bad += 1
        first = ""
        if fails:
            f0 = fails[0]
            first = (f0.get("clause") if isinstance(f0, dict) else str(f0))[:90]
        print(f"{r['property']} {r['status']:5} {r.get('commit', '-'):8} {state:6} {'' if ok else '(!)'} {first}")
    return 1 if bad else 0


if __name__ == "__main__":
    sys.exit(main())
