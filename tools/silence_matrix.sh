#!/bin/sh
# Runs every quick command for several seeds from fresh processes; prints anything that is not silent.
cd "$(dirname "$0")/.." || exit 2
out=$(mktemp -d)
rc=0
for seed in ${SEEDS:-0 1 2 7 12345}; do
  for i in 01 02 03 04 05 06 07 08 09 10 11 12 13 14 15 16 17 18 19 20; do
    VERIF_SEED=$seed VERIF_OUT=$out ./check C$i --tier ${TIER:-quick} > $out/log 2>&1
    r=$?
    if [ $r -ne 0 ] || grep -q '^VIOLATION' $out/log; then
      echo "NOT SILENT: C$i seed=$seed exit=$r"; grep -E 'VIOLATION|clause|machinery' $out/log | head -5; rc=1
    fi
  done
  echo "seed $seed done"
done
rm -rf $out
exit $rc
