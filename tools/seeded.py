#!/venv/bin/python
"""
Evaluate one seeded change (a patch produced independently of /verif) :

  tools/seeded.py <property-id> <name> <patch.diff> <demo.py> [--checks C01,C02,...] [--tier quick]

1. confirm it in a scratch worktree of /repo: applies cleanly, the pinned suite passes, the demo
   exits 1 with the change and 0 without it;
2. run the named checks (default: the property's own) against the changed tree
   (VERIF_SIMFILE_SRC=<worktree>, evidence/replays diverted with VERIF_OUT) and record what they report;
3. store patch, demo and meta.json under /verif/seeded/<name>/ ; remove the worktree.
"""
import argparse
import json
import os
import shutil
import subprocess
import sys
import tempfile
import time

VERIF = os.path.dirname(os.path.dirname(os.path.abspath(__file__)))
PY = "/venv/bin/python"


def sh(cmd, cwd=None, env=None, timeout=3600):
    p = subprocess.run(cmd, cwd=cwd, env=env, capture_output=True, text=True, timeout=timeout)
    return p.returncode, p.stdout + p.stderr


def suite(wt):
    rc, out = sh([PY, "-m", "pytest", "-q", "-p", "no:cacheprovider", "--timeout=900", "-x", "--deselect",
                  "simfile/tests/test_assets.py::TestAssets::test_predefined_assets", "simfile"], cwd=wt)
    tail = [l for l in out.strip().splitlines() if "passed" in l or "failed" in l or "error" in l.lower()][-1:] or [out[-200:]]
    return rc, tail[0]


def main():
    ap = argparse.ArgumentParser()
    ap.add_argument("prop")
    ap.add_argument("name")
    ap.add_argument("patch")
    ap.add_argument("demo")
    ap.add_argument("--checks")
    ap.add_argument("--tier", default="quick")
    ap.add_argument("--notes")
    a = ap.parse_args()
    checks = (a.checks or a.prop).split(",")
    wt = tempfile.mkdtemp(prefix="seeded-", dir="/tmp")
    os.rmdir(wt)
    meta = {"property": a.prop, "name": a.name, "checks_run": {}, "at": time.strftime("%Y-%m-%dT%H:%M:%SZ", time.gmtime())}
    rc, out = sh(["git", "-C", "/repo", "worktree", "add", "--detach", wt, "HEAD"])
    if rc:
        print(out)
        return 2
    try:
        meta["repo_head"] = sh(["git", "-C", "/repo", "rev-parse", "--short", "HEAD"])[1].strip()
        # demo on the unchanged tree
        rc0, out0 = sh([PY, os.path.abspath(a.demo), wt], cwd=wt, timeout=300)
        meta["demo_exit_unchanged"] = rc0
        rc, out = sh(["git", "apply", os.path.abspath(a.patch)], cwd=wt)
        if rc:
            meta["confirmed"] = False
            meta["why"] = "patch does not apply: " + out[-300:]
            print(json.dumps(meta, indent=1))
            return 1
        rcs, tail = suite(wt)
        meta["suite_with_change"] = {"exit": rcs, "summary": tail}
        rc1, out1 = sh([PY, os.path.abspath(a.demo), wt], cwd=wt, timeout=300)
        meta["demo_exit_changed"] = rc1
        meta["demo_output_changed"] = out1[-400:]
        meta["confirmed"] = (rc0 == 0 and rc1 == 1 and rcs == 0)
        outdir = tempfile.mkdtemp(prefix="seeded-out-", dir="/tmp")
        for c in checks:
            env = dict(os.environ, VERIF_SIMFILE_SRC=wt, VERIF_OUT=outdir)
            t0 = time.time()
            rc, out = sh([os.path.join(VERIF, "check"), c, "--tier", a.tier], cwd=VERIF, env=env, timeout=7200)
            clauses = sorted({l.strip()[len("clause:"):].strip() for l in out.splitlines() if l.strip().startswith("clause:")})
            meta["checks_run"][c] = {"tier": a.tier, "exit": rc, "violation_lines": sum(1 for l in out.splitlines() if l.startswith("VIOLATION")),
                                     "clauses": clauses[:6], "wall_s": round(time.time() - t0, 1)}
            if rc not in (0, 1):
                meta["checks_run"][c]["output_tail"] = out[-500:]
        shutil.rmtree(outdir, ignore_errors=True)
        meta["detected_by"] = [c for c, r in meta["checks_run"].items() if r["exit"] == 1 and r["violation_lines"] > 0]
    finally:
        sh(["git", "-C", "/repo", "worktree", "remove", "--force", wt])
    dest = os.path.join(VERIF, "seeded", a.name)
    os.makedirs(dest, exist_ok=True)
    shutil.copy(a.patch, os.path.join(dest, "patch.diff"))
    shutil.copy(a.demo, os.path.join(dest, "demo.py"))
    if a.notes and os.path.exists(a.notes):
        shutil.copy(a.notes, os.path.join(dest, "notes.md"))
        meta["needs_to_manifest"] = open(a.notes).read()[:1200]
    old = os.path.join(dest, "meta.json")
    if os.path.exists(old):
        prev = json.load(open(old))
        hist = prev.get("history", [])
        hist.append({k: prev.get(k) for k in ("at", "repo_head", "checks_run", "detected_by")})
        meta["history"] = hist
    with open(old, "w") as f:
        json.dump(meta, f, indent=1)
    print(f"{a.name}: confirmed={meta['confirmed']} suite={meta['suite_with_change']['summary']} demo {meta['demo_exit_unchanged']}->{meta['demo_exit_changed']} detected_by={meta['detected_by']}")
    for c, r in meta["checks_run"].items():
        print(f"   {c}: exit={r['exit']} violations={r['violation_lines']} {r['wall_s']}s {r['clauses'][:2]}")
    return 0


if __name__ == "__main__":
    sys.exit(main())
