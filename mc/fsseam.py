"""
Controlled filesystems passed through the library's public `filesystem=` parameter:

* listing order is chosen by the explorer (an environment answer that is enumerated),
* every call of the save path (open / write / flush / close) is numbered and the k-th
  can be made to fail (fault enumeration),
* helper I/O of the harness itself bypasses both.

Only counting, permuting and failing is added; storage is PyFilesystem's MemoryFS or
the operating system's filesystem.
"""
import io
import itertools
import os

from . import core

core.import_simfile()
from fs.memoryfs import MemoryFS  # noqa: E402
from simfile._private.nativeosfs import NativeOSFS  # noqa: E402


def permute(entries, k):
    """The k-th listing order of a directory: all permutations for <= 4 entries, rotations above."""
    entries = sorted(entries)
    n = len(entries)
    if n <= 1:
        return entries
    if n <= 4:
        perms = list(itertools.permutations(entries))
        return list(perms[k % len(perms)])
    r = k % n
    return entries[r:] + entries[:r]


def orders_for(n):
    """How many distinct listing orders permute() offers for n entries."""
    if n <= 1:
        return 1
    if n <= 4:
        f = 1
        for i in range(2, n + 1):
            f *= i
        return f
    return n


class Seam:
    """Mixin state: listing order index, call log, fault position."""

    def seam_init(self):
        self.order = 0
        self.calls = []  # (kind, detail)
        self.fail_at = None
        self.fail_exc = None
        self.counting = False

    def _tick(self, kind, detail=""):
        if not self.counting:
            return
        idx = len(self.calls)
        self.calls.append((kind, detail))
        if self.fail_at is not None and idx == self.fail_at:
            raise (self.fail_exc or OSError(28, f"injected fault at call {idx} ({kind} {detail})"))


class CountingWriter:
    """
    Wraps a text stream opened for writing; numbers write / flush / close.

    A failing flush or close is modelled adversarially, like a buffered file whose data never
    reached the disk: the handle is released and the file is left empty (it was truncated when
    it was opened with mode 'w'), so "the writer was opened" never implies "its data is safe".
    """

    def __init__(self, seam, raw, name, discard):
        self._seam = seam
        self._raw = raw
        self._path = name
        self._discard = discard
        self.closed_cleanly = False

    def write(self, data):
        self._seam._tick("write", self._path)
        return self._raw.write(data)

    def _lose_data(self):
        try:
            self._raw.close()
        except Exception:
            pass
        try:
            self._discard()
        except Exception:
            pass

    def flush(self):
        try:
            self._seam._tick("flush", self._path)
        except BaseException:
            self._lose_data()
            raise
        return self._raw.flush()

    def close(self):
        if self._raw.closed:
            return
        try:
            self._seam._tick("close", self._path)
        except BaseException:
            self._lose_data()
            raise
        self._raw.close()
        self.closed_cleanly = True

    def __enter__(self):
        return self

    def __exit__(self, *exc):
        self.close()
        return False

    def __getattr__(self, name):
        return getattr(self._raw, name)


class SeamMemoryFS(MemoryFS, Seam):
    def __init__(self):
        MemoryFS.__init__(self)
        self.seam_init()

    def listdir(self, path):
        return permute(MemoryFS.listdir(self, path), self.order)

    def open(self, path, mode="r", *a, **kw):
        if self.counting:
            self._tick("open", f"{os.path.basename(path)} {mode}")
        f = MemoryFS.open(self, path, mode, *a, **kw)
        if self.counting and ("w" in mode or "a" in mode or "+" in mode):
            return CountingWriter(self, f, os.path.basename(path), lambda: MemoryFS.writebytes(self, path, b""))
        return f

    # harness helpers (never counted)
    def put(self, path, data):
        c, self.counting = self.counting, False
        try:
            d = os.path.dirname(path)
            if d and not self.isdir(d):
                self.makedirs(d, recreate=True)
            self.writebytes(path, data)
        finally:
            self.counting = c

    def snapshot(self):
        c, self.counting = self.counting, False
        try:
            out = {}
            for p in self.walk.files():
                out[p] = self.readbytes(p)
            return out
        finally:
            self.counting = c


class SeamNativeFS(NativeOSFS, Seam):
    def __init__(self):
        NativeOSFS.__init__(self)
        self.seam_init()

    def listdir(self, sys_path):
        # through the library's own NativeOSFS.listdir, so that it is exercised too
        return permute(NativeOSFS.listdir(self, sys_path), self.order)

    def open(self, path, mode="r", *a, **kw):
        if self.counting:
            self._tick("open", f"{os.path.basename(path)} {mode}")
        f = NativeOSFS.open(self, path, mode, *a, **kw)
        if self.counting and ("w" in mode or "a" in mode or "+" in mode):
            return CountingWriter(self, f, os.path.basename(path), lambda: io.open(path, "wb").close())
        return f


def native_snapshot(root):
    out = {}
    for d, _, files in os.walk(root):
        for fn in files:
            p = os.path.join(d, fn)
            with open(p, "rb") as f:
                out[os.path.relpath(p, root)] = f.read()
    return out
