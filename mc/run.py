"""Command line of the explorer: ./check <ID> [--tier quick|thorough] [--replay FILE]."""
import argparse
import importlib
import json
import os
import signal
import sys
import traceback

from . import core


def main(argv=None):
    ap = argparse.ArgumentParser(prog="check")
    ap.add_argument("prop")
    ap.add_argument("--tier", default=os.environ.get("VERIF_TIER") or "quick")
    ap.add_argument("--replay")
    args = ap.parse_args(argv)
    prop = args.prop.upper()
    tier = args.tier if args.tier in ("quick", "thorough") else "quick"
    try:
        seed = int(os.environ.get("VERIF_SEED", "0") or 0)
    except ValueError:
        seed = 0
    try:
        driver = importlib.import_module(f"mc.drivers.{prop.lower()}")
    except ModuleNotFoundError:
        print(f"machinery error: no driver for {prop}", file=sys.stderr)
        return 2
    core.import_simfile()
    signal.signal(signal.SIGPROF, core._on_alarm)
    if args.replay:
        return replay(driver, prop, args.replay)
    run = core.Run(prop, tier, seed, level=getattr(driver, "LEVEL", "model_checking"), reduced_pass=getattr(driver, "REDUCED_PASS", True))
    try:
        return driver.explore(run)
    except core.MachineryError as e:
        print(f"machinery error in {prop}: {e}", file=sys.stderr)
        return 2
    except Exception:
        traceback.print_exc()
        print(f"machinery error in {prop}", file=sys.stderr)
        return 2


def replay(driver, prop, path):
    with open(path) as f:
        rec = json.load(f)
    case = rec["case"]
    if isinstance(case, dict) and case.get("interpreter") == "-O" and not sys.flags.optimize:
        # found by the reduced pass under `python -O`: replay it the same way
        os.execv(sys.executable, [sys.executable, "-O", "-W", "ignore", "-m", "mc.run", prop, "--replay", path])
    if isinstance(case, dict) and "interpreter" in case:
        case = {k: v for k, v in case.items() if k != "interpreter"}
    obs = []
    for _ in range(2):
        signal.setitimer(signal.ITIMER_PROF, core.CASE_TIMEOUT_S)
        try:
            failures = driver.check_case(case)
        except core.WatchdogTimeout:
            failures = [{"clause": "watchdog: case did not return"}]
        except Exception as e:
            if not core.raised_in_library(e):
                raise
            failures = [{"clause": "an exception escaped from the library while the property was being evaluated", "observed": f"{type(e).__name__}: {e}"}]
        finally:
            signal.setitimer(signal.ITIMER_PROF, 0)
        obs.append(core.jsonable(failures))
    if obs[0] != obs[1]:
        print("machinery error: replay is not deterministic", file=sys.stderr)
        print(json.dumps(obs, indent=1), file=sys.stderr)
        return 2
    if obs[0]:
        for fl in obs[0]:
            print(json.dumps(fl, ensure_ascii=True))
        print(f"VIOLATION property={prop} replay={path}")
        return 1
    print(f"replay of {path}: no violation on {core.SRC}")
    return 0


if __name__ == "__main__":
    sys.exit(main())
