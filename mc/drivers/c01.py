"""
C01 - SM simfile: serialize then strictly parse gives back the same simfile.

Layer A (construction tree over characters): every string over the MSD metacharacter
alphabet up to a length, placed in every context of a tiny simfile (ordinary value,
ATTACKS / DISPLAYBPM value, key, each chart field, note data, first and second extra
component).  Layer U (thorough): every BMP code point and every pair over a pool of
awkward characters.  Layer B: breadth-first edit histories with state matching from
the bare object, the empty simfile, blank() and the corpus SM file.
"""
import copy
import itertools
import os

from .. import core
from ..models import msd as M
from . import hist_common as H
from . import text_common as X

LEVEL = "model_checking"
SIGMA = ["a", "#", ":", ";", "\\", "/", "\n", "\r", " "]
SOUP = "a:b;c\\d//e\nf #g"
CONTEXTS = ["value", "attacks", "displaybpm", "key", "keyonly_key", "f0", "f1", "f2", "f3", "f4", "notes", "extra0", "extra1"]
POOL = ["\x00", "\x01", "\x1f", "\x7f", "\x85", " ", " ", "﻿", "́", "\U0001f600", "ß", "İ", "ǅ", "\t", "\x0b", "\x0c", "\x1c", "\xa0",
        "#", ":", ";", "\\", "/", "\n", "\r", " ", "a", "Z", "0", "=", ",", "&", "[", "]", "*", "'", '"', "%", "　", "\ud800"]


def state_for(context, v):
    """A tiny model simfile with v in the given context, or None when v is outside that context's domain."""
    if context == "keyonly_key":
        # the key of a key-only (None) property: escaped like any key
        m = state_for("key", v)
        if m is None:
            return None
        m["items"] = [(k, None if val == "x" and k not in ("TITLE",) else val) for k, val in m["items"]]
        return m
    items = [("TITLE", "t")]
    fields = ["dance-single", "d", "Easy", "1", "0,0", "0000"]
    extra = None
    if context == "value":
        items = [("TITLE", v), ("ARTIST", "x")]
    elif context == "attacks":
        items = [("TITLE", "t"), ("ATTACKS", v)]
    elif context == "displaybpm":
        items = [("DISPLAYBPM", v), ("TITLE", "t")]
    elif context == "key":
        k = v.upper()
        if k == "NOTES" or k != k.upper():
            return None
        items = [("TITLE", "t"), (k, "x")]
    elif context.startswith("f"):
        if v != v.strip():
            return None
        fields[int(context[1])] = v
    elif context == "notes":
        if v != v.strip():
            return None
        fields[5] = v
    elif context == "extra0":
        extra = [v]
    elif context == "extra1":
        extra = ["x", v]
    return {"type": "sm", "items": items, "charts": [{"fields": fields, "extra": extra}]}


def check_value(context, v):
    model = state_for(context, v)
    if model is None:
        return [], "out_of_domain"
    try:
        obj = X.build_object(model)
    except core.WatchdogTimeout:
        raise
    except Exception as e:
        return [{"clause": "building the simfile through the public API raised", "expected": "object", "observed": f"{type(e).__name__}: {e}"}], "ok"
    return H.check_roundtrip(model, obj)


SPACE = None


def space():
    global SPACE
    if SPACE is None:
        SPACE = H.Space("sm")
    return SPACE


_INIT = None


def initial_states():
    global _INIT
    if _INIT is None:
        _INIT = _initial_states()
    return _INIT


def _initial_states():
    """name -> (model, factory of a fresh object)"""
    out = {}
    out["SMSimfile()"] = ({"type": "sm", "items": [], "charts": []}, lambda: X.SMSimfile())
    out["SMSimfile(string='')"] = ({"type": "sm", "items": [], "charts": []}, lambda: X.SMSimfile(string=""))
    b = X.SMSimfile.blank()
    out["SMSimfile.blank()"] = (H.model_from_object(b), lambda: X.SMSimfile.blank())
    path = os.path.join(core.SRC, "testdata", "nekonabe", "nekonabe.sm")
    if os.path.exists(path):
        def neko():
            sf = X.simfile.open(path)
            for ch in sf.charts:
                ch.notes = ",".join(ch.notes.split(",")[:2]).strip()
            return sf
        pristine = neko()  # never serialized; every state's object starts from a deep copy of it
        out["nekonabe.sm (notes shortened)"] = (H.model_from_object(pristine), lambda: copy.deepcopy(pristine))
    return out


OPS = [
    ("set", "TITLE", None), ("set", "TITLE", "x"), ("set", "TITLE", SOUP), ("set", "ATTACKS", "a:b"), ("set", "ATTACKS", ""), ("set", "ATTACKS", None),
    ("set", "DISPLAYBPM", "1:2"), ("set", "STOPS", "x"), ("set", "FREEZES", "y"), ("set", "", "x"), ("set", "X Y", ""), ("set", "A:B", ("fresh", SOUP)),
    ("alias", "X Y", "TITLE"), ("set", "NOTES2", "n2"), ("set", "NOTEDATA", ""),
    ("pop", "TITLE"), ("popitem",), ("move_to_end", "TITLE"), ("update", [["TITLE", "u"], ["NEW", "v:w"]]), ("setdefault", "GENRE", "g"), ("clear",),
    ("del", "TITLE"), ("del", "ATTACKS"), ("del", "STOPS"), ("del", "FREEZES"),
    ("aset", "title", "t2"), ("adel", "title"), ("aset", "attacks", "p:q"), ("aset", "displaybpm", None), ("aset", "stops", "s2"), ("adel", "stops"),
    ("c_append", "blank"), ("c_append", "meta"), ("c_append", "extra"), ("c_append", "scratch"), ("c_extra_append", 0, "x;y"), ("c_insert0", "meta"), ("c_pop",), ("c_reverse",), ("c_set0", "extra"), ("c_assign", ["blank", "meta"]),
    ("cf_attr", 0, "stepstype", "a:b"), ("cf_attr", 0, "notes", "0;1\n//2\\"), ("cf_key", 0, "METER", "\\"), ("cf_attr", 0, "description", ""),
    ("c_extra", 0, None), ("c_extra", 0, []), ("c_extra", 0, ["", "e:1"]),
]


FIELD_VALUES = ("", "Edit", "7", "dance-single", "0,1", "a\nb")


def check_case(case):
    if case["kind"] == "value":
        return check_value(case["context"], case["value"])[0]
    if case["kind"] == "fields":
        model = {"type": "sm", "items": [("TITLE", "t")], "charts": [{"fields": list(case["fields"]), "extra": case["extra"]}]}
        return H.check_roundtrip(model, X.build_object(model))[0]
    if case["kind"] == "scale":
        label, model = X.scale_models("sm", case.get("thorough", False))[case["index"]]
        return H.check_roundtrip(model, X.build_object(model))[0]
    if case["kind"] == "history":
        model, mk = initial_states()[case["init"]]
        return H.replay_history(space(), model, mk(), case["ops"])
    raise core.MachineryError("unknown case")


def run_value(acc, layer, context, v):
    case = {"kind": "value", "context": context, "value": v}
    core.guard_cheap(acc, case)
    fails, status = check_value(context, v)
    acc.count("evaluations")
    if status != "ok":
        acc.count(status.split(":")[0])
        if status.startswith("excluded"):
            acc.outcome("excluded: dependency gap")
        return
    acc.count("roundtrips_checked")
    if any(ch in v for ch in "#:;\\/\n\r"):
        acc.count("nontrivial")
    for f in fails:
        acc.violation(f["clause"], case, f["expected"], f["observed"], signature=(f["clause"], context if "structure" in f["clause"] else None))


def explore_shard(acc, shard):
    kind = shard[0]
    if kind == "A":
        _, prefix, maxlen = shard
        layer = "A values over the metacharacter alphabet"
        v = ""
        for n in range(0, maxlen - len(prefix) + 1):
            for rest in itertools.product(SIGMA, repeat=n):
                v = "".join(prefix + rest)
                acc.count("states")
                acc.count("transitions")
                for ctx in CONTEXTS:
                    run_value(acc, layer, ctx, v)
        acc.sample(layer, {"value": v, "contexts": CONTEXTS})
    elif kind == "U1":
        _, lo, hi = shard
        layer = "U single code points"
        for cp in range(lo, hi):
            v = chr(cp)
            acc.count("states")
            acc.count("transitions")
            for ctx in ("value", "attacks", "key", "f1", "notes", "extra0"):
                run_value(acc, layer, ctx, v)
        acc.sample(layer, {"code_points": [lo, hi]})
    elif kind == "U2":
        _, a = shard
        layer = "U pairs over the awkward-character pool"
        for b in POOL:
            v = a + b
            acc.count("states")
            acc.count("transitions")
            for ctx in ("value", "attacks", "f1", "notes", "extra1"):
                run_value(acc, layer, ctx, v)
        acc.sample(layer, {"value": v})
    elif kind == "B":
        _, init_name, first_op, depth = shard
        model, mk = initial_states()[init_name]
        H.bfs(acc, space(), "B edit histories", init_name, copy.deepcopy(model), mk, OPS, depth, first_op, prop="C01")
    elif kind == "S":
        _, part, nparts, thorough = shard
        layer = "S scale"
        case = None
        for i, (label, model) in enumerate(X.scale_models("sm", thorough)):
            if i % nparts != part:
                continue
            case = {"kind": "scale", "index": i, "thorough": thorough, "label": label}
            core.guard(acc, case)
            fails, status = H.check_roundtrip(model, X.build_object(model))
            acc.count("evaluations")
            acc.count("states")
            acc.count("transitions")
            acc.count("nontrivial")
            if status == "ok":
                acc.count("roundtrips_checked")
                acc.outcome("scale simfile")
            else:
                acc.count(status.split(":")[0])
            for f in fails:
                acc.violation(f["clause"], case, str(f["expected"])[:300], str(f["observed"])[:300], signature=("scale", f["clause"]))
        if case:
            acc.sample(layer, case)
    elif kind == "V":
        layer = "V vocabulary (values that mean something elsewhere) in every context"
        for ctx in CONTEXTS:
            for tok in (X.KEY_VOCABULARY + X.VOCABULARY if ctx == "key" else X.VOCABULARY):
                run_value(acc, layer, ctx, tok)
        acc.outcome("vocabulary value")
        acc.sample(layer, {"kind": "value", "context": CONTEXTS[-1], "value": X.VOCABULARY[-1]})
    elif kind == "F":
        # SM chart fields holding values that would be at home in another field (difficulty names, numbers,
        # step types, radar lists, nothing), with and without extra components
        _, first = shard
        layer = "F chart fields holding each other's kinds of value"
        case = None
        for rest in itertools.product(FIELD_VALUES, repeat=5):
            fields = [first] + list(rest)
            for extra in (None, [""], ["x"], ["0000"]):
                model = {"type": "sm", "items": [("TITLE", "t")], "charts": [{"fields": fields, "extra": extra}]}
                case = {"kind": "fields", "fields": fields, "extra": extra}
                core.guard_cheap(acc, case)
                fails, status = H.check_roundtrip(model, X.build_object(model))
                acc.count("evaluations")
                acc.count("states")
                acc.count("transitions")
                acc.count("nontrivial")
                if status == "ok":
                    acc.count("roundtrips_checked")
                    acc.outcome("chart fields permuted")
                else:
                    acc.count(status.split(":")[0])
                for f in fails:
                    acc.violation(f["clause"], case, f["expected"], f["observed"], signature=("fields", f["clause"]))
        acc.sample(layer, case)
    elif kind == "W":
        _, init_name = shard
        model, mk = initial_states()[init_name]
        H.long_walk(acc, space(), "W long walk from " + init_name, init_name, copy.deepcopy(model), mk, OPS, prop="C01")


def probe(p):
    if p["kind"] == "value":
        fails, status = check_value(p["context"], p["value"])
        if fails:
            return "violation: " + fails[0]["clause"]
        if status.startswith("excluded"):
            return "dependency gap"
        return None
    return None


def explore(run):
    run.run_probes(probe)
    shards = []
    amax = 6 if run.thorough() else 4
    shards.append(("A", (), 1))
    for a in SIGMA:
        for b in SIGMA:
            shards.append(("A", (a, b), amax))
    if run.thorough():
        for lo in range(0, 0x10000, 0x800):
            shards.append(("U1", lo, lo + 0x800))
        for a in POOL:
            shards.append(("U2", a))
    else:
        for a in POOL[:12]:
            shards.append(("U2", a))
    depth = 4 if run.thorough() else 3
    for name in initial_states():
        # the bare constructor is the same state as the empty simfile (one step is enough to show it works);
        # corpus states (large objects) are explored one step less deep than the empty and blank simfiles
        d = 1 if name == "SMSimfile()" else (depth - 1 if "shortened" in name else depth)
        shards.append(("B", name, None, 0))
        for i in range(len(OPS) + 1):  # + the 'serialize' operation
            shards.append(("B", name, i, d))
    for name in initial_states():
        if "shortened" not in name:
            shards.append(("W", name))  # one long history per small initial state
    for part in range(8):
        shards.append(("S", part, 8, run.thorough()))
    for v in FIELD_VALUES:
        shards.append(("F", v))
    shards.append(("V",))
    k = run.seed % len(shards)
    shards = shards[k:] + shards[:k]
    run.merge(core.pmap(explore_shard, shards, run.seed))
    acc = run.acc
    bstates = acc.distinct("states")
    run.extra = {
        "roundtrips_checked": int(acc.c["roundtrips_checked"]),
        "excluded_dependency_gap": int(acc.c["excluded"]),
        "out_of_domain_states": int(acc.c["out_of_domain"]),
        "history_states_distinct": bstates,
        "history_states_visited": int(acc.c["states_visited"]),
    }
    run.rule = (
        f"A: every string of length <= {amax} over {SIGMA!r} in {len(CONTEXTS)} contexts (value, ATTACKS, DISPLAYBPM, key, five chart fields, note data, two extra components); "
        + ("U: every BMP code point in six contexts and every pair over a 40-character pool; " if run.thorough() else "U: pairs over part of the awkward-character pool; ")
        + f"B: breadth-first edit histories of depth <= {depth} (corpus states {depth - 1}, bare constructor 1) over {len(OPS)} operations + serialize from {len(initial_states())} initial states with state matching on the whole object state incl. string identity. "
        "Cases in msdparser's escaping gaps are detected operationally, must match a listed pattern, and are counted. Non-trivial = has a chart, a None or a metacharacter."
        + " W: from every small initial state one uninterrupted history on one live object in which every ordered pair of operations (incl. serialize) occurs consecutively (order-2 de Bruijn sequence, about 2000 steps), compared with the model after every step, round trip every 16 steps."
        + " S: scale simfiles - one-line lists of 7..700 entries, each of : // \\ ; at every offset in a window before 4096 and 8192 (thorough 16384, 65536) in the first property, the note data and a description, 17 / 130 / 1100 charts, 400 properties."
        + " F: one SM chart with every assignment of 6 values (empty, a difficulty name, a number, a step type, a radar list, two lines) to its six fields x 4 extra-component lists."
        + f" V: each of {len(X.VOCABULARY)} values that mean something to StepMania, Python or a filesystem (difficulty names old and new, attack syntax, numbers in other spellings, entity / escape / format / path look-alikes, key names, Unicode normal forms) in each of the 12 contexts, and {len(X.KEY_VOCABULARY)} key look-alikes as keys."
    )
    run.assumptions = [
        "msdparser is the trusted tokenizer/escaper; its escaping gaps are excluded operationally and reported as known findings",
        "mc/models/msd.py states the parameter list the repository must emit",
    ]
    core.require(acc.outcomes["vocabulary value"] > 0, "no vocabulary")
    core.require(acc.outcomes["chart fields permuted"] > 0, "no permuted chart fields")
    core.require(acc.outcomes["scale simfile"] > 0, "no scale simfile")
    core.require(acc.outcomes["long walk on one live object"] > 0, "no long walk")
    core.require(acc.c["roundtrips_checked"] > 1000, "too few round trips")
    core.require(acc.outcomes["excluded: dependency gap"] > 0, "no dependency gap seen (classifier inactive?)")
    core.require(acc.outcomes["state reached after an earlier serialization"] > 0, "no history with an intermediate serialization")
    core.require(acc.outcomes["state with charts"] > 0, "no chart states")
    core.require(acc.outcomes["state with a key-only (None) property"] > 0, "no None property")
    return run.finish(
        states=acc.c["states"] + bstates,
        transitions=acc.c["transitions"],
        evaluations=acc.c["evaluations"],
        distinct_nontrivial=acc.c["nontrivial"],
    )
