"""
C11 - beat -> time conversion matches the exact timeline for all event interleavings.

Shape I: event sets (BPM changes redundant/different, stops, delays, warps of 1-3
grid steps) on 4-point beat grids (coarse: beats 0..3; fine: adjacent ticks), built
event by event; every set x offsets is a state.  In every state time_at is compared
with the exact rational model at every probe beat under every EventTag, bpm_at is
compared exactly, monotonicity in (beat, tag) is checked, and the two metamorphic
transitions (offset shift, inserting a redundant BPM change at any free grid point)
are applied and must leave every answer unchanged (resp. shifted by -d).
"""
import itertools
from fractions import Fraction

from .. import core
from ..models import timeline as T
from . import timing_common as TC

LEVEL = "model_checking"
OFFSETS = (Fraction(0), Fraction(1, 2), Fraction(-1, 4))
EPS = 1e-9


def answers(engine, beats, reverse=False):
    """Every time_at answer (beat x tag), bpm_at and hittable per beat; optionally asked in the opposite order."""
    out = {}
    tags = list(reversed(TC.TAGS)) if reverse else TC.TAGS
    for b in (reversed(beats) if reverse else beats):
        ib = TC.to_beat(b)
        if reverse:
            out[(b, "hit")] = engine.hittable(ib)
            out[(b, "bpm")] = engine.bpm_at(ib)
        for tag in tags:
            out[(b, int(tag))] = float(engine.time_at(ib, tag))
        if not reverse:
            out[(b, "bpm")] = engine.bpm_at(ib)
            out[(b, "hit")] = engine.hittable(ib)
    return out


def check_timeline(tl, beats, exact, with_meta=True, free_points=()):
    """Returns list of failure dicts for one concrete timeline."""
    fails = []

    def fail(clause, expected, observed, **kw):
        fails.append({"clause": clause, "expected": core.jsonable(expected), "observed": core.jsonable(observed), **kw})

    try:
        model, engine = TC.build(tl)
        ans = answers(engine, beats)
    except core.WatchdogTimeout:
        raise
    except Exception as e:
        fail("building the engine or querying it raised", "answers", f"{type(e).__name__}: {e}")
        return fails
    # 0. the same questions asked in the opposite order (later tags first, later beats first) on the same
    #    engine get the same answers: an answer must not depend on what was asked before
    try:
        back = answers(engine, beats, reverse=True)
        diff = [k for k in ans if back[k] != ans[k]]
        if diff:
            k = diff[0]
            fail("an answer depends on the order in which the engine was queried", ans[k], back[k], query=[str(k[0]), str(k[1])])
    except core.WatchdogTimeout:
        raise
    except Exception as e:
        fail("querying the engine in reverse order raised", "answers", f"{type(e).__name__}: {e}")
    # 0b. the timing data the engine was built from is an input: building and querying leaves it as it was, and
    #     a second engine built from the very same object gives the same answers
    try:
        td = engine.timing_data
        snap = TC.timing_snapshot(td)
        e_again = TC.TimingEngine(td)
        again = answers(e_again, beats[:: max(1, len(beats) // 8)])
        diff = [k for k in again if again[k] != ans[k]]
        if diff:
            k = diff[0]
            fail("a second engine built from the same timing data object answers differently", ans[k], again[k], query=[str(k[0]), str(k[1])])
        if TC.timing_snapshot(td) != snap:
            fail("building / querying an engine modified the caller's timing data", snap, TC.timing_snapshot(td))
    except core.WatchdogTimeout:
        raise
    except Exception as e:
        fail("building a second engine from the same timing data raised", "answers", f"{type(e).__name__}: {e}")
    # 1. time_at against the exact model
    for b in beats:
        for tag in T.TAGS:
            want = model.time_at(b, tag)
            got = ans[(b, tag)]
            if abs(got - float(want)) > EPS:
                fail("time_at differs from the exact timeline", float(want), got, beat=str(b), tag=T.TAG_NAMES[tag])
                break
        else:
            continue
        break
    # default tag is STOP
    for b in beats[:: max(1, len(beats) // 6)]:
        if float(engine.time_at(TC.to_beat(b))) != ans[(b, T.STOP)]:
            fail("default tag of time_at is not STOP", ans[(b, T.STOP)], float(engine.time_at(TC.to_beat(b))), beat=str(b))
            break
    # 2. monotone in (beat, tag)
    seq = [ans[(b, tag)] for b in beats for tag in T.TAGS]
    tol = 1e-12  # float rounding on non-dyadic tick beats; a real decrease is >= one pause or tick
    for i in range(len(seq) - 1):
        if seq[i + 1] < seq[i] - tol:
            b = beats[(i + 1) // 7]
            fail("time decreases as (beat, tag) increases", seq[i], seq[i + 1], beat=str(b), tag=T.TAG_NAMES[(i + 1) % 7])
            break
    # 3. bpm_at
    for b in beats:
        got = ans[(b, "bpm")]
        if Fraction(got) != model.bpm(b):
            fail("bpm_at is not the last BPM change at or before the beat", str(model.bpm(b)), str(got), beat=str(b))
            break
    if not with_meta:
        return fails
    # 4a. offset shift: every time moves by -d (same events, offset + d)
    for d in (Fraction(1, 4), Fraction(-3, 2)):
        tl2 = dict(tl, offset=tl["offset"] + d)
        try:
            _, e2 = TC.build(tl2)
            for b in beats:
                for tag in TC.TAGS:
                    t2 = float(e2.time_at(TC.to_beat(b), tag))
                    if abs(t2 - (ans[(b, int(tag))] - float(d))) > EPS:
                        fail("changing the offset by d does not change every time by -d", ans[(b, int(tag))] - float(d), t2, beat=str(b), tag=tag.name, d=str(d))
                        raise StopIteration
        except StopIteration:
            break
        except core.WatchdogTimeout:
            raise
        except Exception as e:
            fail("engine with shifted offset raised", "answers", f"{type(e).__name__}: {e}")
            break
    # 4b. inserting a redundant BPM change changes nothing
    for fp in free_points:
        tl3 = dict(tl)
        bpms = list(tl["bpms"])
        cur = model.bpm(fp)
        bpms.append((fp, cur))
        bpms.sort()
        tl3["bpms"] = bpms
        try:
            _, e3 = TC.build(tl3)
            a3 = answers(e3, beats)
        except core.WatchdogTimeout:
            raise
        except Exception as e:
            fail("engine with an extra redundant BPM change raised", "answers", f"{type(e).__name__}: {e}", inserted_at=str(fp))
            break
        bad = None
        for key, v in ans.items():
            v3 = a3[key]
            same = (v3 == v) if not isinstance(v, float) else abs(v3 - v) <= EPS
            if not same:
                bad = (key, v, v3)
                break
        if bad:
            fail("inserting a BPM change that repeats the BPM in force changes an answer", bad[1], bad[2], query=[str(bad[0][0]), str(bad[0][1])], inserted_at=str(fp))
            break
    # 5. engines are independent objects: after other engines were built and used, the first one still answers the same
    try:
        later = answers(engine, beats[:: max(1, len(beats) // 8)])
        diff = [k for k in later if later[k] != ans[k]]
        if diff:
            k = diff[0]
            fail("an engine's answers changed after another engine was built", ans[k], later[k], query=[str(k[0]), str(k[1])])
    except core.WatchdogTimeout:
        raise
    except Exception as e:
        fail("re-querying the first engine after building others raised", "answers", f"{type(e).__name__}: {e}")
    return fails


def check_case(case):
    tl = TC.parse_tl(case["timeline"])
    beats = [Fraction(b) for b in case["beats"]]
    free = [Fraction(b) for b in case.get("free_points", [])]
    return check_timeline(tl, beats, case.get("exact", True), True, free)


def explore_shard(acc, shard):
    kind = shard[0]
    if kind == "sets":
        _, grid, famname, first, max_events, seed = shard[:6]
        tiny = len(shard) > 6 and shard[6]
        fam = TC.family(famname, seed)
        evs = TC.all_events(grid, tiny)
        beats = TC.query_beats(grid)
        origin, step = TC.GRIDS[grid]
        layer = f"{grid} grid, {famname} values" + (", with a warp shorter than half a tick" if tiny else "")

        def visit(sel):
            events = tuple(evs[i] for i in sel)
            if not TC.compatible(events):
                return False
            bpm_points = {g for g, k in events if k[0] == "b"}
            free = [origin + g * step for g in range(4) if g not in bpm_points and not (g == 0 and origin == 0)]
            # plus a point off the event grid (between events), still tick-aligned
            free.append(origin + step * 3 + (step / 2 if step > TC.TICK else step * 2))
            for off in OFFSETS:
                tl = TC.concretize(grid, events, fam, off)
                case = {"kind": "timeline", "timeline": TC.fmt_tl(tl), "beats": [str(b) for b in beats], "free_points": [str(f) for f in free], "exact": fam["exact"]}
                core.guard_cheap(acc, case)
                fails = check_timeline(tl, beats, fam["exact"], with_meta=(off == 0), free_points=free)
                acc.count("states")
                acc.count("evaluations", len(beats) * 9 * (1 + (2 + len(free) if off == 0 else 0)))
                if len(events) >= 2:
                    acc.count("nontrivial")
                for f in fails:
                    acc.violation(f["clause"], case, f["expected"], f["observed"], signature=(f["clause"],))
            if any(k == "W0" for g, k in events):
                acc.outcome("warp shorter than half a tick")
            kinds = {k[0] for g, k in events}
            if "W" in kinds and ("S" in kinds or "D" in kinds):
                acc.outcome("pause together with a warp")
            if sum(1 for g, k in events if k[0] == "W") >= 2:
                acc.outcome("several warps")
            if any(k == "bD" for g, k in events) and "W" in kinds:
                acc.outcome("BPM change together with a warp")
            return True

        def rec(sel):
            if not visit(sel):
                return
            if len(sel) < max_events:
                for j in range(sel[-1] + 1, len(evs)):
                    acc.count("transitions")
                    rec(sel + [j])

        if first is None:
            visit([])
            acc.layer(layer, events=len(evs), max_events=max_events, probe_beats=len(beats), offsets=len(OFFSETS), exhaustive=True)
        else:
            acc.count("transitions")
            rec([first])
            acc.sample(layer, {"grid": grid, "first_event": evs[first], "example": TC.fmt_tl(TC.concretize(grid, (evs[first],), fam))})
    elif kind == "special":
        _, idx, thorough = shard
        label, tl, beats = TC.special_timelines(thorough)[idx]
        layer = "X special timelines"
        case = {"kind": "timeline", "timeline": TC.fmt_tl(tl), "beats": [str(b) for b in beats], "free_points": ["3"], "exact": False, "label": label}
        core.guard(acc, case)
        fails = check_timeline(tl, beats, False, with_meta=True, free_points=[Fraction(3)])
        # the same under a decimal context of 6 digits (an ambient setting of the calling thread)
        with core.decimal_precision(6):
            fails += [dict(f, clause=f["clause"] + " (decimal context precision 6)") for f in check_timeline(tl, beats, False, with_meta=False, free_points=[])]
        acc.count("states")
        acc.count("transitions")
        acc.count("evaluations", len(beats) * 9 * 4)
        acc.count("nontrivial")
        acc.outcome("special timeline (crowded warp / long warp / far out / many digits)")
        for f in fails:
            acc.violation(f["clause"], case, f["expected"], f["observed"], signature=(f["clause"], "special"))
        acc.sample(layer, {"label": label, "probe_beats": len(beats)})
    elif kind == "corpus":
        _, idx = shard
        name, tl, td = TC.corpus_timelines()[idx]
        tl = dict(tl, warps=[(b, Fraction(round(v * 48), 48)) for b, v in tl["warps"]])
        pts = set()
        for k in ("bpms", "stops", "delays", "warps"):
            for b, v in tl[k]:
                pts.update([b, b - TC.TICK, b + TC.TICK])
                if k == "warps":
                    pts.update([b + v, b + v - TC.TICK, b + v + TC.TICK])
        pts.update([Fraction(-1), Fraction(0)])
        beats = sorted(pts)
        core.guard(acc, {"kind": "corpus", "name": name})
        from simfile.timing.engine import TimingEngine
        model = T.Timeline(tl["bpms"], tl["stops"], tl["delays"], tl["warps"], tl["offset"])
        engine = TimingEngine(td)
        bad = 0
        for b in beats:
            for tag in TC.TAGS:
                got = float(engine.time_at(TC.to_beat(b), tag))
                want = float(model.time_at(b, int(tag)))
                if abs(got - want) > 1e-6 and not bad:
                    bad += 1
                    acc.violation("time_at differs from the exact timeline (corpus)", {"kind": "corpus", "name": name, "beat": str(b), "tag": tag.name}, want, got, signature=("corpus",))
            if Fraction(engine.bpm_at(TC.to_beat(b))) != model.bpm(b):
                acc.violation("bpm_at differs (corpus)", {"kind": "corpus", "name": name, "beat": str(b)}, str(model.bpm(b)), str(engine.bpm_at(TC.to_beat(b))), signature=("corpus-bpm",))
        acc.count("states")
        acc.count("evaluations", len(beats) * 8)
        acc.count("nontrivial")
        acc.count("corpus_timelines")
        acc.sample("corpus", {"name": name, "events": {k: len(tl[k]) for k in ("bpms", "stops", "delays", "warps")}, "probe_beats": len(beats)})


def explore(run):
    shards = []
    plan = [("coarse", "dyadic", 3, 4), ("fine", "dyadic", 3, 4), ("coarse", "decimal", 2, 3), ("fine", "fast", 2, 3), ("coarse", "slow", 2, 3)]
    for grid, fam, q, t in plan:
        max_events = t if run.thorough() else q
        shards.append(("sets", grid, fam, None, max_events, run.seed))
        for i in range(len(TC.all_events(grid))):
            shards.append(("sets", grid, fam, i, max_events, run.seed))
    # warps whose positive length snaps to zero ticks, alone and together with 1 (thorough: <= 3) other events
    for i in range(4):
        shards.append(("sets", "coarse", "dyadic", i, 4 if run.thorough() else 2, run.seed, True))
    shards += [("corpus", i) for i in range(len(TC.corpus_timelines()))]
    shards += [("special", i, run.thorough()) for i in range(len(TC.special_timelines(run.thorough())))]
    k = run.seed % len(shards)
    shards = shards[k:] + shards[:k]
    run.merge(core.pmap(explore_shard, shards, run.seed))
    acc = run.acc
    run.rule = (
        "construction tree over event sets: kinds {redundant BPM change, different BPM change, stop, delay, warp of 1/2/3 grid steps} on 4 grid points "
        "(coarse grid beats 0..3 and fine grid of adjacent ticks), at most one BPM change and one warp per beat, "
        + "; ".join(f"{g}/{f}: <= {(t if run.thorough() else q)} events" for g, f, q, t in plan)
        + f"; x offsets {[str(o) for o in OFFSETS]}; each state queried at ~40 probe beats x 7 tags; metamorphic transitions: offset shift (2 shifts), redundant BPM change at every free grid point. "
        f"Dyadic BPM cycle chosen by seed: {[str(x) for x in TC.family('dyadic', run.seed)['bpms']]}. Non-trivial = at least two events."
        + " X: hand-built special timelines - 3..7 (thorough 8) BPM changes with a stop and a delay inside one warp, warps of 8 and 20 beats, queries and events at beats 133..20000, BPMs 1, 2000, 1000.001, 128.010, 133.33333333, offsets of an hour."
    )
    run.assumptions = [
        "mc/models/timeline.py (exact rational evaluation) is the specification",
        "timing data in the stated domain: first BPM at beat 0, positive BPMs and pause lengths, tick-aligned sorted beats",
        "agreement to 1e-9 s; exact equality for metamorphic relations on dyadic values",
    ]
    core.require(acc.outcomes["special timeline (crowded warp / long warp / far out / many digits)"] > 0, "no special timeline")
    core.require(acc.outcomes["warp shorter than half a tick"] > 0, "no tiny warp")
    core.require(acc.outcomes["pause together with a warp"] > 0, "no pause+warp timeline")
    core.require(acc.outcomes["several warps"] > 0, "no multi-warp timeline")
    core.require(acc.outcomes["BPM change together with a warp"] > 0, "no BPM change with warp")
    return run.finish(
        states=acc.c["states"],
        transitions=acc.c["transitions"],
        evaluations=acc.c["evaluations"],
        distinct_nontrivial=acc.c["nontrivial"],
    )
