"""
C15 - split timing: chart timing is used all-or-nothing under one rule.

Product enumeration of the configuration space.  Layer S: simfile kind x version x
chart kind x every vector in {absent, empty, non-empty}^11 over the chart timing
properties; simfile and chart carry different sentinel values so that the five
TimingData attributes reveal their source.  Layer D: OFFSET / DISPLAYBPM states on
both sides x ignore_specified x DISPLAYBPM spellings from a token grammar x BPMS lists.
"""
import itertools
from decimal import Decimal
from fractions import Fraction

from .. import core

core.import_simfile()
from simfile.sm import SMChart, SMSimfile  # noqa: E402
from simfile.ssc import SSCChart, SSCSimfile  # noqa: E402
from simfile.timing import TimingData  # noqa: E402
from simfile.timing.displaybpm import (  # noqa: E402
    RandomDisplayBPM,
    RangeDisplayBPM,
    StaticDisplayBPM,
    displaybpm,
)

LEVEL = "model_checking"

PROPS = ("BPMS", "STOPS", "DELAYS", "TIMESIGNATURES", "TICKCOUNTS", "COMBOS", "WARPS", "SPEEDS", "SCROLLS", "FAKES", "LABELS")
VERSIONS = (None, "", "0.69", "0.7", "0.70", "0.83", "1.0", "nan", "inf", "7e-1")
SIM = {"BPMS": "0.000=111.000", "STOPS": "1.000=0.111", "DELAYS": "2.000=0.111", "WARPS": "3.000=1.000", "OFFSET": "0.111"}
NONEMPTY_POOLS = {
    "BPMS": ("0.000=222.000", "0.000=222.000,\n8.000=444.000"),
    "STOPS": ("1.000=0.222",),
    "DELAYS": ("2.000=0.222",),
    "WARPS": ("3.000=2.000",),
    "TIMESIGNATURES": ("0.000=4=4", "0.000=3=4"),
    "TICKCOUNTS": ("0.000=4", "0.000=2"),
    "COMBOS": ("0.000=1", "0.000=2"),
    "SPEEDS": ("0.000=1.000=0.000=0", "0.000=2.000=1.000=0"),
    "SCROLLS": ("0.000=1.000", "0.000=0.500"),
    "FAKES": ("4.000=1.000", "0.000=0.021"),
    "LABELS": ("0.000=Song Start", " "),
}
CHART_OFFSET = "0.222"
EDIT_VERSIONS = ("0.69", "0.83", None, "1.0", "0.5")  # in-place edits of the version between two readings


def events(s):
    if s is None or not s.strip():
        return []
    out = []
    for row in s.split(","):
        b, v = row.strip().split("=")
        out.append((Fraction(round(Fraction(b) * 48), 48), Decimal(v)))
    return out


def nonempty(prop, seed):
    pool = NONEMPTY_POOLS[prop]
    return pool[seed % len(pool)]


def make_simfile(kind, version, extra=None):
    sf = SMSimfile(string="") if kind == "sm" else SSCSimfile(string="")
    if version is not None:
        sf["VERSION"] = version
    sf["TITLE"] = "t"
    for k, v in SIM.items():
        sf[k] = v
    for k, v in (extra or {}).items():
        if v is None:
            sf.pop(k, None)
        else:
            sf[k] = v
    return sf


def make_chart(kind, vector, seed, extra=None, empty_value="", notes_first=None):
    """vector: tuple over PROPS of 0 absent / 1 empty / 2 non-empty; notes_first: put the note data before the
    timing properties (the rule is about which properties the chart has, not where they stand)"""
    if kind == "none":
        return None
    if kind == "sm":
        return SMChart.blank()
    if notes_first is None:
        notes_first = sum(vector) % 2 == 1
    ch = SSCChart()
    ch["STEPSTYPE"] = "dance-single"
    if notes_first:
        ch["NOTES"] = "0000\n0000\n0000\n0000\n"
    for p, st in zip(PROPS, vector):
        if st == 1:
            ch[p] = empty_value
        elif st == 2:
            ch[p] = nonempty(p, seed)
    ch["OFFSET"] = CHART_OFFSET
    for k, v in (extra or {}).items():
        if v is None:
            ch.pop(k, None)
        else:
            ch[k] = v
    if not notes_first:
        ch["NOTES"] = "0000\n0000\n0000\n0000\n"
    return ch


def uses_chart(sfkind, version, chartkind, chart):
    if sfkind != "ssc" or chartkind != "ssc":
        return False
    try:
        v = float(version) if version else 0.0
    except ValueError:
        v = 0.0
    if not (v >= 0.7):  # "0.7 or later": not-a-number is not later than anything
        return False
    return any(chart.get(p) for p in PROPS)


def td_observation(td):
    return {
        "bpms": [(Fraction(e.beat), e.value) for e in td.bpms],
        "stops": [(Fraction(e.beat), e.value) for e in td.stops],
        "delays": [(Fraction(e.beat), e.value) for e in td.delays],
        "warps": [(Fraction(e.beat), e.value) for e in td.warps],
        "offset": td.offset,
    }


def td_expected(src):
    off = src.get("OFFSET")
    return {
        "bpms": events(src.get("BPMS")),
        "stops": events(src.get("STOPS")),
        "delays": events(src.get("DELAYS")),
        "warps": events(src.get("WARPS")),
        "offset": Decimal(off) if off else Decimal(0),
    }


def snapshot_inputs(sf, ch):
    return (list(sf.items()), len(sf.charts), None if ch is None else list(ch.items()))


def check_source(sfkind, version, chartkind, vector, seed, empty_value=""):
    sf = make_simfile(sfkind, version)
    ch = make_chart(chartkind, vector, seed, empty_value=empty_value)
    from_chart = uses_chart(sfkind, version, chartkind, ch)
    want = td_expected(ch if from_chart else sf)
    before = snapshot_inputs(sf, ch)
    try:
        td = TimingData(sf, ch) if ch is not None else TimingData(sf)
        got = td_observation(td)
    except core.WatchdogTimeout:
        raise
    except Exception as e:
        return [{"clause": "TimingData raised", "expected": "timing data", "observed": f"{type(e).__name__}: {e}"}], from_chart
    # reading timing data is a read: neither the simfile nor the chart changes, and a second reading agrees
    if before != snapshot_inputs(sf, ch):
        return [{"clause": "building TimingData modified the simfile or the chart", "expected": before, "observed": snapshot_inputs(sf, ch)}], from_chart
    try:
        again = td_observation(TimingData(sf, ch) if ch is not None else TimingData(sf))
    except core.WatchdogTimeout:
        raise
    except Exception as e:
        again = f"{type(e).__name__}: {e}"
    if again != got:
        return [{"clause": "a second TimingData built from the same simfile and chart differs from the first", "expected": got, "observed": again}], from_chart
    # the lists of a TimingData belong to it: editing them in place does not show in one built afterwards
    try:
        for lst in (td.bpms, td.stops, td.delays, td.warps):
            lst.append(lst[0]) if len(lst) else None
            del lst[:1]
        td.bpms.clear()
        third = td_observation(TimingData(sf, ch) if ch is not None else TimingData(sf))
    except core.WatchdogTimeout:
        raise
    except Exception as e:
        third = f"{type(e).__name__}: {e}"
    if third != got:
        return [{"clause": "editing one TimingData's lists in place changes a TimingData built afterwards from the same source", "expected": got, "observed": third}], from_chart
    if sfkind == "ssc" and chartkind == "ssc" and got == want:
        # the rule is evaluated on the simfile as it is *now*: editing the version of the same simfile object between
        # two readings (by key or by attribute, across 0.7 and back) gives what a fresh simfile with that version gives
        for step, v2 in enumerate(EDIT_VERSIONS + (version,)):
            if v2 is None:
                sf.pop("VERSION", None)
            elif step % 2:
                sf.version = v2
            else:
                sf["VERSION"] = v2
            want2 = td_expected(ch if uses_chart(sfkind, v2, chartkind, ch) else sf)
            try:
                got2 = td_observation(TimingData(sf, ch))
            except core.WatchdogTimeout:
                raise
            except Exception as e:
                got2 = f"{type(e).__name__}: {e}"
            if got2 != want2:
                return [{"clause": "after editing the simfile's version in place, TimingData is not what the rule gives for the new version",
                         "expected": {"version_now": v2, "version_before": version, **want2}, "observed": got2}], from_chart
    if sfkind == "sm" and not from_chart and got == want:
        # an SM simfile may spell its stops FREEZES (the legacy alias): the same timing data
        sf2 = make_simfile(sfkind, version)
        sf2["FREEZES"] = sf2.pop("STOPS")
        try:
            got2 = td_observation(TimingData(sf2, ch) if ch is not None else TimingData(sf2))
        except core.WatchdogTimeout:
            raise
        except Exception as e:
            got2 = f"{type(e).__name__}: {e}"
        if got2 != want:
            return [{"clause": "timing data of an SM simfile that spells its stops FREEZES differs", "expected": want, "observed": got2}], from_chart
    if got != want:
        mixed = [k for k in got if got[k] != want[k]]
        return [{
            "clause": "timing data not taken from the source the rule selects (or sources mixed)",
            "expected": {"source": "chart" if from_chart else "simfile", **want},
            "observed": got, "fields_wrong": mixed,
        }], from_chart
    return [], from_chart


# -- displayed BPM -------------------------------------------------------------------

NUM, COLON, STAR, JUNK, BLANK = "num", ":", "*", "junk", " "
TOKENS = (NUM, COLON, STAR, JUNK, BLANK)
NUM_POOL = ("120", "150.5", "0", "999.999")
JUNK_POOL = ("abc", "12a", "1,5")


def spell(tokens, seed):
    out = []
    n = 0
    for t in tokens:
        if t == NUM:
            out.append(NUM_POOL[(seed + n) % len(NUM_POOL)])
            n += 1
        elif t == JUNK:
            out.append(JUNK_POOL[seed % len(JUNK_POOL)])
        else:
            out.append(t)
    return "".join(out)


import re as _re

_TOK = _re.compile(r"(\d+(?:\.\d+)?)(?![\da-zA-Z,])|(:)|(\*)|( )|([^:* ]+)")


def tokenize(text):
    """Independent tokenizer of a DISPLAYBPM spelling into num / : / * / blank / junk."""
    out = []
    for m in _TOK.finditer(text):
        if m.group(1) is not None:
            out.append(NUM)
        elif m.group(2):
            out.append(COLON)
        elif m.group(3):
            out.append(STAR)
        elif m.group(4):
            out.append(BLANK)
        else:
            out.append(JUNK)
    return out


def classify(tokens, text):
    """'static' / 'range' / 'random' / 'fallback' / 'either' (blank-padded spellings are not claimed)."""
    core_toks = [t for t in tokens if t != BLANK]
    padded = len(core_toks) != len(tokens)
    if core_toks == [NUM]:
        kind = "static"
    elif core_toks == [NUM, COLON, NUM]:
        kind = "range"
    elif core_toks == [STAR]:
        kind = "random"
    else:
        return "fallback"
    return "either" if padded else kind


def bpm_fallback(bpms_str):
    vals = [v for _, v in events(bpms_str)]
    if len(vals) == 1:
        return ("static", vals[0])
    return ("range", min(vals), max(vals))


def observe_display(sf, ch, ignore):
    try:
        if ignore is False and len(sf) % 2 == 0:
            # the documented default: a DISPLAYBPM that is present is used
            r = displaybpm(sf) if ch is None else displaybpm(sf, ch)
        elif ch is None:
            r = displaybpm(sf, ignore_specified=ignore)
        else:
            r = displaybpm(sf, ch, ignore_specified=ignore)
    except core.WatchdogTimeout:
        raise
    except Exception as e:
        return ("exc", f"{type(e).__name__}: {e}")
    if type(r) is StaticDisplayBPM:
        return ("static", r.value)
    if type(r) is RangeDisplayBPM:
        return ("range", r.min, r.max)
    if type(r) is RandomDisplayBPM:
        return ("random",)
    return ("other", repr(r))


def expected_display(src, ignore, tokens_of):
    """Set of acceptable results."""
    fb = bpm_fallback(src.get("BPMS"))
    if ignore or "DISPLAYBPM" not in src:
        return [fb]
    v = src["DISPLAYBPM"]
    if v is None or v == "":
        return [fb]
    toks = tokenize(v)  # the text decides (two number tokens side by side are one number)
    kind = classify(toks, v)
    if kind == "fallback":
        return [fb]
    parts = [p.strip() for p in v.split(":")]
    spec = None
    k = kind if kind != "either" else classify([t for t in toks if t != BLANK], v)
    if k == "static":
        spec = ("static", Decimal(parts[0]))
    elif k == "range":
        spec = ("range", Decimal(parts[0]), Decimal(parts[1]))
    elif k == "random":
        spec = ("random",)
    return [spec, fb] if kind == "either" else [spec]


def check_display(sfkind, version, chartkind, vector, seed, sim_extra, chart_extra, ignore, tokens_of):
    sf = make_simfile(sfkind, version, sim_extra)
    ch = make_chart(chartkind, vector, seed, chart_extra)
    from_chart = uses_chart(sfkind, version, chartkind, ch)
    src = ch if from_chart else sf
    fails = []
    # offset clause
    try:
        td = TimingData(sf, ch) if ch is not None else TimingData(sf)
        off = src.get("OFFSET")
        want_off = Decimal(off) if off else Decimal(0)
        if td.offset != want_off:
            fails.append({"clause": "offset not taken from the selected source (default 0)", "expected": str(want_off), "observed": str(td.offset)})
    except core.WatchdogTimeout:
        raise
    except Exception as e:
        fails.append({"clause": "TimingData raised", "expected": "timing data", "observed": f"{type(e).__name__}: {e}"})
    if not src.get("BPMS"):
        return fails, from_chart, False
    want = expected_display(src, ignore, tokens_of)
    before = snapshot_inputs(sf, ch)
    got = observe_display(sf, ch, ignore)
    if snapshot_inputs(sf, ch) != before:
        fails.append({"clause": "displaybpm modified the simfile or the chart", "expected": before, "observed": snapshot_inputs(sf, ch)})
    elif observe_display(sf, ch, ignore) != got:
        fails.append({"clause": "asking for the displayed BPM a second time gives another answer", "expected": got, "observed": observe_display(sf, ch, ignore)})
    if got not in want:
        fails.append({"clause": "displayed BPM is not the selected source's DISPLAYBPM / BPMS as documented", "expected": want, "observed": got, "source": "chart" if from_chart else "simfile"})
    return fails, from_chart, True


def check_case(case):
    k = case["kind"]
    if k == "source":
        return check_source(case["sf"], case["version"], case["chart"], tuple(case["vector"]), case["seed"], case.get("empty_value", ""))[0]
    if k == "display":
        tokens_of = case.get("tokens_map_full") or display_spellings(case["seed"])
        return check_display(case["sf"], case["version"], case["chart"], tuple(case["vector"]), case["seed"], case["sim_extra"], case["chart_extra"], case["ignore"], tokens_of)[0]
    raise core.MachineryError("unknown case")


def vectors(max_nonabsent):
    """All vectors with at most max_nonabsent non-absent entries (None = all 3^11)."""
    if max_nonabsent is None:
        yield from itertools.product((0, 1, 2), repeat=len(PROPS))
        return
    n = len(PROPS)
    for k in range(max_nonabsent + 1):
        for idx in itertools.combinations(range(n), k):
            for states in itertools.product((1, 2), repeat=k):
                v = [0] * n
                for i, s in zip(idx, states):
                    v[i] = s
                yield tuple(v)
    yield tuple([1] * n)
    yield tuple([2] * n)


def display_spellings(seed):
    """token sequences of length <= 3 -> text, de-duplicated on the text"""
    out = {}
    for n in (1, 2, 3):
        for toks in itertools.product(TOKENS, repeat=n):
            out.setdefault(spell(toks, seed), list(toks))
    return out


def explore_shard(acc, shard):
    kind = shard[0]
    if kind == "S":
        _, sfkind, version, chartkind, first, maxna, seed = shard
        layer = "S source selection"
        if chartkind != "ssc":
            vecs = [tuple([0] * len(PROPS))]
        elif maxna is None:
            vecs = ((first,) + rest for rest in itertools.product((0, 1, 2), repeat=len(PROPS) - 1))
        else:
            vecs = (v for v in vectors(maxna) if v[0] == first)
        for vec in vecs:
            case = {"kind": "source", "sf": sfkind, "version": version, "chart": chartkind, "vector": list(vec), "seed": seed}
            core.guard_cheap(acc, case)
            fails, from_chart = check_source(sfkind, version, chartkind, vec, seed)
            acc.count("evaluations")
            acc.count("states")
            acc.count("transitions")
            if chartkind == "ssc" and sfkind == "ssc":
                acc.count("nontrivial")
            acc.outcome("timing from chart" if from_chart else "timing from simfile")
            for f in fails:
                acc.violation(f["clause"], case, f["expected"], f["observed"], signature=(layer, f["clause"], sfkind, chartkind))
        acc.sample(layer, case)
    elif kind == "N":
        # key-only (None) values count as empty
        _, version, seed = shard
        layer = "S source selection, None values"
        for vec in vectors(2):
            if 1 not in vec:
                continue
            case = {"kind": "source", "sf": "ssc", "version": version, "chart": "ssc", "vector": list(vec), "seed": seed, "empty_value": None}
            core.guard_cheap(acc, case)
            fails, from_chart = check_source("ssc", version, "ssc", vec, seed, empty_value=None)
            acc.count("evaluations")
            acc.count("states")
            acc.count("transitions")
            acc.count("nontrivial")
            for f in fails:
                acc.violation(f["clause"], case, f["expected"], f["observed"], signature=(layer, f["clause"]))
        acc.sample(layer, case)
    elif kind == "D":
        _, sfkind, version, chartkind, ignore, seed = shard
        layer = "D offset and displayed BPM"
        spellings = display_spellings(seed)
        tokens_of = dict(spellings)
        bpms_lists = ["0.000=120.000", "0.000=120.000,\n4.000=60.000", "0.000=90.000,\n4.000=180.000,\n8.000=135.5", "0.000=200,\n1.000=100,\n2.000=300",
                      "0.000=150,\n16.000=150.000", "0.000=75,\n4.000=75,\n8.000=75.0", "0.000=100,\n0.000=200,\n8.000=150",
                      # magnitudes: a BPM beyond 100000 next to an ordinary one, the ends of the usual range, many digits
                      "0.000=120.000,\n4.000=100000.001", "0.000=1,\n4.000=2000,\n8.000=0.001", "0.000=1E1", "0.000=1.2E+2,\n4.000=5e-1", "0.000=133.33333333333333333333333333,\n4.000=133.33333333333333333333333334"]
        vecs = [v for v in vectors(1)] if chartkind == "ssc" else [tuple([0] * len(PROPS))]
        states3 = ("absent", "empty", "value")
        case = None
        for vec in vecs:
            for soff, coff in itertools.product(states3, repeat=2):
                sim_off = {"absent": None, "empty": "", "value": "0.111"}[soff]
                ch_off = {"absent": None, "empty": "", "value": "0.222"}[coff]
                # DISPLAYBPM: absent / empty / each spelling, on the side that is the source; the other side carries a decoy
                for bi, bl in enumerate(bpms_lists):
                    for dtext in [None, ""] + (list(spellings) + ["140:140.0", "99:99"] if (bi == 0 and soff == "value" and coff == "value") else ["150", "100:200", "*", "abc", "140:140.0", "150.00000000000000000000000001", "10000000000000000000000000000:10000000000000000000000000001"]):
                        for decoy in ("77", None):
                            sim_extra = {"OFFSET": sim_off, "BPMS": bl, "DISPLAYBPM": dtext}
                            chart_extra = {"OFFSET": ch_off, "DISPLAYBPM": decoy}
                            if chartkind == "ssc" and vec[0] == 2:
                                chart_extra["BPMS"] = bl.replace("120", "121").replace("0.000=90", "0.000=91").replace("0.000=200", "0.000=201").replace("150", "151").replace("75", "76").replace("=100", "=101")
                            for swap in (False, True):
                                if swap:
                                    se = dict(sim_extra, DISPLAYBPM=decoy)
                                    ce = dict(chart_extra, DISPLAYBPM=dtext)
                                else:
                                    se, ce = sim_extra, chart_extra
                                case = {"kind": "display", "sf": sfkind, "version": version, "chart": chartkind, "vector": list(vec), "seed": seed,
                                        "sim_extra": se, "chart_extra": ce, "ignore": ignore}
                                core.guard_cheap(acc, case)
                                fails, from_chart, did = check_display(sfkind, version, chartkind, vec, seed, se, ce, ignore, tokens_of)
                                acc.count("evaluations")
                                acc.count("states")
                                acc.count("transitions")
                                if did:
                                    acc.count("nontrivial")
                                    acc.outcome("display BPM from chart" if from_chart else "display BPM from simfile")
                                for f in fails:
                                    acc.violation(f["clause"], case, f["expected"], f["observed"], signature=(layer, f["clause"], sfkind, chartkind))
        if case:
            acc.sample(layer, case)


def explore(run):
    shards = []
    maxna = None if run.thorough() else 3
    for sfkind in ("sm", "ssc"):
        for version in (VERSIONS if sfkind == "ssc" else (None, "0.83")):
            for chartkind in ("none", "sm", "ssc"):
                if chartkind == "ssc":
                    for first in (0, 1, 2):
                        if run.thorough():
                            for second in (0, 1, 2):
                                shards.append(("S2", sfkind, version, chartkind, first, second, run.seed))
                        else:
                            shards.append(("S", sfkind, version, chartkind, first, maxna, run.seed))
                else:
                    shards.append(("S", sfkind, version, chartkind, 0, 0, run.seed))
    for version in ("0.83", "0.69", None):
        shards.append(("N", version, run.seed))
    for sfkind, version in (("ssc", "0.83"), ("ssc", "0.7"), ("ssc", "0.69"), ("ssc", None), ("sm", None)):
        for chartkind in ("none", "sm", "ssc"):
            for ignore in (False, True):
                shards.append(("D", sfkind, version, chartkind, ignore, run.seed))
    k = run.seed % len(shards)
    shards = shards[k:] + shards[:k]
    run.merge(core.pmap(explore_shard_dispatch, shards, run.seed))
    acc = run.acc
    run.rule = (
        "S: simfile kind {SM, SSC} x SSC version {absent, '', 0.69, 0.7, 0.70, 0.83, 1.0} x chart {none, SM, SSC} x "
        + ("all 3^11 vectors" if run.thorough() else "all vectors with <= 3 non-absent properties + the all-empty/all-non-empty corners")
        + " over the eleven chart timing properties {absent, empty, non-empty}; sentinel values reveal the source of each of the five TimingData attributes; "
        "N: key-only (None) values as 'empty'; D: OFFSET {absent, empty, value}^2 x DISPLAYBPM {absent, empty, every spelling of <=3 tokens over number/:/*/junk/blank} on the source side with a decoy on the other side x ignore_specified x BPMS lists of 1-3 values x chart vectors with <=1 non-absent property. "
        f"Non-empty representatives chosen by seed {run.seed}. Non-trivial = SSC simfile with SSC chart (S) / a display BPM was computed (D)."
    )
    run.assumptions = ["blank-padded DISPLAYBPM spellings may be read either way (not claimed)", "for the displayed-BPM clause the chosen source has a non-empty BPMS"]
    core.require(acc.outcomes["timing from chart"] > 0, "chart never the source")
    core.require(acc.outcomes["timing from simfile"] > 0, "simfile never the source")
    core.require(acc.outcomes["display BPM from chart"] > 0, "display BPM never from chart")
    core.require(acc.outcomes["display BPM from simfile"] > 0, "display BPM never from simfile")
    return run.finish(
        states=acc.c["states"],
        transitions=acc.c["transitions"],
        evaluations=acc.c["evaluations"],
        distinct_nontrivial=acc.c["nontrivial"],
    )


def explore_shard_dispatch(acc, shard):
    if shard[0] == "S2":
        _, sfkind, version, chartkind, first, second, seed = shard
        layer = "S source selection"
        case = None
        for rest in itertools.product((0, 1, 2), repeat=len(PROPS) - 2):
            vec = (first, second) + rest
            case = {"kind": "source", "sf": sfkind, "version": version, "chart": chartkind, "vector": list(vec), "seed": seed}
            core.guard_cheap(acc, case)
            fails, from_chart = check_source(sfkind, version, chartkind, vec, seed)
            acc.count("evaluations")
            acc.count("states")
            acc.count("transitions")
            if sfkind == "ssc":
                acc.count("nontrivial")
            acc.outcome("timing from chart" if from_chart else "timing from simfile")
            for f in fails:
                acc.violation(f["clause"], case, f["expected"], f["observed"], signature=(layer, f["clause"], sfkind, chartkind))
        acc.sample(layer, case)
    else:
        explore_shard(acc, shard)
