"""
C04 - load, save, load loses nothing; a second save changes nothing.

Same text spaces as C03 (layers P and C, both strictness values) plus systematic
corpus mutations: every truncation at a line boundary, every single-line deletion,
and splices 'lines 0..i of file A + lines j.. of file B' on a stride.
"""
import itertools

from .. import core
from ..models import msd as M
from . import text_common as X

simfile = X.simfile

LEVEL = "model_checking"
# no reduced pass under `python -O`: the texts here include malformed ones, which the trusted tokenizer (msdparser)
# recognises by assert statements - without them it loops; that is the dependency's business
REDUCED_PASS = False


def model_of(obs):
    """observation -> model simfile"""
    if obs["type"] == "SMSimfile":
        return {"type": "sm", "items": [tuple(i) for i in obs["items"]],
                "charts": [{"fields": list(c["fields"]), "extra": c["extra"]} for c in obs["charts"]]}
    return {"type": "ssc", "items": [tuple(i) for i in obs["items"]], "charts": [{"items": [tuple(i) for i in c["items"]]} for c in obs["charts"]]}


LOADERS = {
    "auto": lambda text, strict: simfile.loads(text, strict=strict),
    "sm": lambda text, strict: X.SMSimfile(string=text, strict=strict),
    "ssc": lambda text, strict: X.SSCSimfile(string=text, strict=strict),
}


def check_text(text, strict, loader="auto"):
    """Returns (failures, status) with status in ok / excluded:<why> / rejected."""
    if M.tokenize(text, True)[0] == "assert":
        return [], "excluded:tokenizer assertion"
    try:
        s1 = LOADERS[loader](text, strict)
    except core.WatchdogTimeout:
        raise
    except Exception:
        return [], "rejected"
    o1 = X.observe(s1)
    m1 = model_of(o1)
    if m1["type"] == "ssc" and any(M.ssc_notes_key(c["items"]) is None for c in m1["charts"]):
        return [], "excluded:SSC chart without note data"
    if m1["type"] == "sm" and any(c["fields"] != [f.strip() if isinstance(f, str) else f for f in c["fields"]] or list(M.SM_FIELDS) != o["keys"] for c, o in zip(m1["charts"], o1["charts"])):
        return [{"clause": "loaded SM chart does not have six trimmed fields", "expected": "six trimmed fields", "observed": core.jsonable(o1["charts"])}], "ok"
    params = M.expected_params(m1)
    if M.dependency_gap(params):
        if M.gap_explained(params):
            return [], "excluded:dependency gap"
        return [{"clause": "msdparser cannot round-trip a loaded value and no listed pattern explains it", "expected": "explained gap", "observed": core.jsonable(params)}], "ok"
    fails = []

    def fail(clause, expected, observed):
        fails.append({"clause": clause, "expected": core.jsonable(expected), "observed": core.jsonable(observed)})

    try:
        t1 = str(s1)
    except core.WatchdogTimeout:
        raise
    except Exception as e:
        fail("a loaded simfile cannot be serialized", "text", f"{type(e).__name__}: {e}")
        return fails, "ok"
    try:
        s2 = type(s1)(string=t1)
    except core.WatchdogTimeout:
        raise
    except Exception as e:
        fail("the serialized simfile is not accepted by the strict parser", "simfile", f"{type(e).__name__}: {e}")
        return fails, "ok"
    want = X.expected_observation(M.canonical(m1))
    got = X.observe(s2)
    if got != want:
        fail("reloading the output changes properties or charts", want, got)
    try:
        t2 = str(s2)
        if t2 != t1:
            fail("serializing once more does not reproduce the output byte for byte", t1[:300], t2[:300])
        # and a second full cycle is a no-op
        s3 = type(s1)(string=t2)
        if X.observe(s3) != got:
            fail("a second load/save cycle is not a no-op", "same", "different")
    except core.WatchdogTimeout:
        raise
    except Exception as e:
        fail("second serialization raised", "text", f"{type(e).__name__}: {e}")
    # the same file loaded through auto-detection comes back in the same format (VERSION first => SSC)
    return fails, "ok"


def check_case(case):
    if case["kind"] == "text":
        return check_text(case["text"], case["strict"], case.get("loader", "auto"))[0]
    if case["kind"] == "scale":
        label, model = X.scale_models(case["fmt"], case.get("thorough", False))[case["index"]]
        return check_text(X.model_text(model), case["strict"], case.get("loader", "auto"))[0]
    if case["kind"] == "mutation":
        return check_text(mutate(case), case["strict"], case.get("loader", "auto"))[0]
    raise core.MachineryError("unknown case")


_CORPUS = {}


def corpus_lines(rel):
    if rel not in _CORPUS:
        for r, p in X.corpus_files():
            _CORPUS[r] = X.read_corpus(p).splitlines(keepends=True)
    return _CORPUS[rel]


def mutate(case):
    a = corpus_lines(case["a"])
    op = case["op"]
    if op == "truncate":
        return "".join(a[: case["i"]])
    if op == "delete":
        return "".join(a[: case["i"]] + a[case["i"] + 1:])
    if op == "splice":
        b = corpus_lines(case["b"])
        return "".join(a[: case["i"]] + b[case["j"]:])
    if op == "whole":
        return "".join(a)
    raise core.MachineryError("unknown mutation")


def run_text(acc, layer, case, text, strict, loaders=("auto",)):
    for loader in loaders:
        run_text1(acc, layer, dict(case, loader=loader), text, strict, loader)


def run_text1(acc, layer, case, text, strict, loader):
    core.guard_cheap(acc, case)
    fails, status = check_text(text, strict, loader)
    acc.count("evaluations")
    if status != "ok":
        acc.count(status)
        return
    acc.count("cycles_checked")
    for f in fails:
        acc.violation(f["clause"], case, f["expected"], f["observed"], signature=(f["clause"], str(f["observed"])[:40] if "raised" in f["clause"] or "cannot" in f["clause"] else None))


def explore_shard(acc, shard):
    kind = shard[0]
    if kind in ("P", "C"):
        _, prefix, maxlen = shard
        pool = range(len(X.PIECES)) if kind == "P" else range(len(X.SYMBOLS))
        src = X.PIECES if kind == "P" else X.SYMBOLS
        layer = "P parameter pieces" if kind == "P" else "C symbol texts"
        case = None
        for n in range(0, maxlen - len(prefix) + 1):
            for rest in itertools.product(pool, repeat=n):
                seq = tuple(prefix) + rest
                text = "".join(src[i] for i in seq)
                variants = [text] if kind == "C" else [text, X.BOM + text]
                for t in variants:
                    acc.count("states")
                    acc.count("transitions")
                    nt = False
                    for strict in (True, False):
                        case = {"kind": "text", "text": t, "strict": strict}
                        run_text(acc, layer, case, t, strict, ("auto", "sm", "ssc"))
                    tok = M.tokenize(t, True)
                    if tok[0] == "ok" and len(tok[1]) >= 2:
                        acc.count("nontrivial")
                        keys = [p[0].upper() for p in tok[1]]
                        if "NOTEDATA" in keys:
                            acc.outcome("SSC chart text")
                        if "NOTES" in keys and "NOTEDATA" not in keys:
                            acc.outcome("SM chart text")
                        if any(len(p) == 1 for p in tok[1]):
                            acc.outcome("key-only parameter")
        if case:
            acc.sample(layer, case)
    elif kind == "corpus":
        _, rel, op, lo, hi, stride, other, ostride = shard
        layer = f"corpus {op}"
        a = corpus_lines(rel)
        case = None
        for i in range(lo, min(hi, len(a) + 1), stride):
            if op == "splice":
                b = corpus_lines(other)
                for j in range(0, len(b) + 1, ostride):
                    for strict in (True, False):
                        case = {"kind": "mutation", "op": op, "a": rel, "i": i, "b": other, "j": j, "strict": strict}
                        run_text(acc, layer, case, mutate(case), strict)
                    acc.count("states")
                    acc.count("transitions")
                    acc.count("nontrivial")
            else:
                if op == "delete" and i >= len(a):
                    continue
                for strict in (True, False):
                    case = {"kind": "mutation", "op": op, "a": rel, "i": i, "strict": strict}
                    run_text(acc, layer, case, mutate(case), strict)
                acc.count("states")
                acc.count("transitions")
                acc.count("nontrivial")
        if case:
            acc.sample(layer, case)
    elif kind == "vocab":
        # every vocabulary token as a value (escaped, so that it is the value), as a multi-value ATTACKS, in the
        # chart and as a key, in both formats
        layer = "V vocabulary texts"
        case = None
        for tok in X.VOCABULARY + X.KEY_VOCABULARY:
            e = X.escape_value(tok)
            texts = [
                f"#TITLE:{e};\n#ATTACKS:{tok};\n#DISPLAYBPM:{tok};\n#NOTES:dance-single:{e}:{e}:{e}:{e}:0000;\n",
                f"#VERSION:0.83;\n#TITLE:{e};\n#ATTACKS:{tok};\n#NOTEDATA:;\n#STEPSTYPE:{e};\n#DESCRIPTION:{e};\n#DIFFICULTY:{e};\n#ATTACKS:{tok};\n#NOTES:0000;\n",
                f"#VERSION:{e};\n#TITLE:t;\n#NOTEDATA:;\n#DESCRIPTION:d;\n#NOTES:0000;\n",
                f"#{e}:v;\n#TITLE:t;\n",
                f"#VERSION:0.83;\n#NOTEDATA:;\n#{e}:v;\n#NOTES:0000;\n#{e}:w;\n",
            ]
            for ti, text in enumerate(texts):
                for strict in (True, False):
                    case = {"kind": "text", "text": text, "strict": strict}
                    run_text(acc, layer, case, text, strict, ("auto", "sm" if ti in (0, 3) else "ssc"))
            acc.count("states")
            acc.count("transitions")
            acc.count("nontrivial")
        acc.outcome("vocabulary text")
        acc.sample(layer, case)
    elif kind == "scale":
        _, fmt, part, nparts, thorough = shard
        layer = "S scale (long one-line lists, metacharacters around buffer sizes, many charts / properties)"
        case = None
        for i, (label, model) in enumerate(X.scale_models(fmt, thorough)):
            if i % nparts != part:
                continue
            text = X.model_text(model)
            for strict in (True, False):
                case = {"kind": "scale", "fmt": fmt, "index": i, "thorough": thorough, "label": label, "strict": strict}
                core.guard(acc, case)
                run_text(acc, layer, case, text, strict, ("auto", "sm" if fmt == "sm" else "ssc"))
            acc.count("states")
            acc.count("transitions")
            acc.count("nontrivial")
            acc.outcome("scale text")
        if case:
            acc.sample(layer, case)
    elif kind == "whole":
        for rel, _ in X.corpus_files():
            for strict in (True, False):
                case = {"kind": "mutation", "op": "whole", "a": rel, "strict": strict}
                core.guard(acc, case)
                run_text(acc, "corpus whole files", case, mutate(case), strict)
            acc.count("states")
            acc.count("nontrivial")
            acc.count("corpus_files")
        acc.sample("corpus whole files", case)


def probe(p):
    fails, status = check_text(p["text"], p["strict"], p.get("loader", "auto"))
    if fails:
        return "violation: " + fails[0]["clause"]
    if status.startswith("excluded:"):
        return status[len("excluded:"):]
    return None


def explore(run):
    run.run_probes(probe)
    shards = []
    np_ = len(X.PIECES)
    pmax = 4 if run.thorough() else 3
    shards.append(("P", (), 1 if run.thorough() else 0))
    for a in range(np_):
        if run.thorough():
            for b in range(np_):
                shards.append(("P", (a, b), pmax))
        else:
            shards.append(("P", (a,), pmax))
    ns = len(X.SYMBOLS)
    cmax = 6 if run.thorough() else 5
    shards.append(("C", (), 1))
    for a in range(ns):
        for b in range(ns):
            shards.append(("C", (a, b), cmax))
    shards.append(("whole",))
    shards.append(("vocab",))
    for fmt in ("sm", "ssc"):
        for part in range(8):
            shards.append(("scale", fmt, part, 8, run.thorough()))
    real = [rel for rel, _ in X.corpus_files() if "blank" not in rel]
    stride = 1 if run.thorough() else 40
    sstride = 150 if run.thorough() else 500
    for rel in real:
        n = len(corpus_lines(rel))
        chunk = 400
        for lo in range(0, n + 1, chunk):
            shards.append(("corpus", rel, "truncate", lo, lo + chunk, stride, None, 0))
            shards.append(("corpus", rel, "delete", lo, lo + chunk, stride, None, 0))
        for other in real:
            for lo in range(0, n + 1, sstride * 8):
                shards.append(("corpus", rel, "splice", lo, lo + sstride * 8, sstride, other, sstride))
    k = run.seed % len(shards)
    shards = shards[k:] + shards[:k]
    run.merge(core.pmap(explore_shard, shards, run.seed))
    acc = run.acc
    run.extra = {
        "excluded": {k: int(v) for k, v in acc.c.items() if k.startswith("excluded:")},
        "rejected_by_loader": int(acc.c["rejected"]),
        "cycles_checked": int(acc.c["cycles_checked"]),
    }
    run.rule = (
        f"P: every sequence of <= {pmax} of {np_} parameter pieces, with and without a BOM; C: every text of <= {cmax} symbols over {X.SYMBOLS}; each under strict True and False, loaded by simfile.loads and by both class constructors; "
        f"corpus: whole files, every truncation at and every deletion of a line boundary on a stride of {stride}, splices A[:i]+B[j:] for all ordered file pairs on a stride of {sstride} lines; "
        "a case is checked when the loader accepts the text, every SSC chart has note data and no value falls in msdparser's escaping gaps (each exclusion counted). "
        "Non-trivial = text with >= 2 parameters / any corpus mutation."
        + " S: scale texts - one-line lists of 7..700 entries as BPMS / STOPS / BGCHANGES (SSC: also in the chart), each of : // \\ ; at every offset in a window before 4096 and 8192 (thorough 16384, 65536) in the first property, the note data and a description, 17 / 130 / 1100 charts, 400 properties; both formats x strict x 2 loaders."
        + " V: every vocabulary token (see C01) as a value, as ATTACKS / DISPLAYBPM components, in chart fields and chart properties, as VERSION and as a key, in both formats x strict x 2 loaders."
    )
    run.assumptions = [
        "simfile.loads is the loader under test (its conformance to the rules is C03's business)",
        "msdparser escaping gaps are detected operationally (write with MSDParameter.__str__, read with parse_msd) and must match a pattern listed in the property",
    ]
    core.require(acc.outcomes["vocabulary text"] > 0, "no vocabulary text")
    core.require(acc.outcomes["scale text"] > 0, "no scale text")
    core.require(acc.c["cycles_checked"] > 1000, "too few cycles checked")
    core.require(acc.outcomes["SSC chart text"] > 0 and acc.outcomes["SM chart text"] > 0, "no chart texts")
    core.require(acc.outcomes["key-only parameter"] > 0, "no key-only parameter")
    core.require(acc.c["corpus_files"] > 0, "no corpus file")
    return run.finish(
        states=acc.c["states"],
        transitions=acc.c["transitions"],
        evaluations=acc.c["evaluations"],
        distinct_nontrivial=acc.c["nontrivial"],
    )
