"""Shared by C01-C04, C18: text spaces, observation of simfile objects, model <-> object glue."""
import itertools
import os

from .. import core
from ..models import msd as M

core.import_simfile()
import simfile  # noqa: E402
from simfile.sm import SMChart, SMSimfile  # noqa: E402
from simfile.ssc import SSCChart, SSCSimfile  # noqa: E402

BOM = "﻿"

# layer P: parameter pieces (simplest first)
PIECES = [
    "#TITLE:a;",
    "#title:b;",
    "#Title;",
    "\n",
    "#VERSION:0.83;",
    "#vers\u0131on:1;",  # lower case with a dotless i: upper() gives VERSION, casefold() does not give version
    "#ATTACKS:x:y;",
    "#attacks;",
    "#DISPLAYBPM:1:2;",
    "#DISPLAYBPM:1:;",
    "#ATTACKS::y;",
    "#VERSION;",
    "#K:a\\:b;",
    "#straße:\x85 x\u2028;",
    "#NOTES:a:b:c:d:e:f;",
    "#NOTES: a\nx :b\ny:c:d:e: f :g:h;",  # step type and description that span two lines
    "#NOTES:\u3000a\xa0:b\x1c:c:\x85d:e:\u2028f\x0b:\u3000g;",
    "#NOTES:a:b;",
    "#NOTEDATA:;",
    "#STEPSTYPE:x\ny;",
    "#NOTES:0000;",
    "#NOTES;",
    "#ARTIST:e\u0301\u2126\u037e x;",
    "#NOTES:0\\\\00\\\\;",
    "#NOTES2:1111;",
    "#CREDIT:;",
    "#NOTES:;",
    "#METER:0;",
    "#NOTES:0;",
    "#TITLE:no semicolon\n",
    "stray",
    "// comment\n",
    "\r\n",
]
CORE_PIECES = [0, 1, 2, 4, 6, 9, 13, 16, 18, 24, 25]

# layer C: character-level symbols
SYMBOLS = ["a", "#", ":", ";", "\n", "\\", "/", "VERSION", "NOTES"]


def piece_texts(max_pieces, with_bom=True):
    """All sequences of <= max_pieces pieces (by length, then index order); BOM variants for non-empty ones."""
    for n in range(max_pieces + 1):
        for seq in itertools.product(range(len(PIECES)), repeat=n):
            yield seq, "".join(PIECES[i] for i in seq)


def observe(obj):
    """Whole observable state of a simfile object (type, ordered items, charts)."""
    t = type(obj).__name__
    items = list(obj.items())
    charts = []
    for ch in obj.charts:
        if isinstance(ch, SMChart):
            charts.append({"fields": [dict.get(ch, k) for k in M.SM_FIELDS], "keys": list(ch.keys()), "extra": ch.extradata})
        else:
            charts.append({"items": list(ch.items())})
    return {"type": t, "items": items, "charts": charts}


def expected_observation(model, multi_none_as_empty=False):
    """What observe() must return for a model simfile."""
    items = model["items"]
    out = {"type": "SMSimfile" if model["type"] == "sm" else "SSCSimfile", "items": list(items), "charts": []}
    for c in model["charts"]:
        if model["type"] == "sm":
            out["charts"].append({"fields": list(c["fields"]), "keys": list(c.get("key_order") or M.SM_FIELDS), "extra": c["extra"]})
        else:
            out["charts"].append({"items": list(c["items"])})
    return out


def same_observation(got, want, lenient_multi=True):
    """Equality of observations; a key-only ATTACKS/DISPLAYBPM may be None or ''."""
    if got == want:
        return True
    if not lenient_multi:
        return False
    return _norm(got) == _norm(want)


def _norm_items(items):
    return [(k, "" if (k in M.MULTI and v is None) else v) for k, v in items]


def _norm(o):
    if not isinstance(o, dict) or "items" not in o:
        return o
    out = dict(o, items=_norm_items(o["items"]))
    out["charts"] = [dict(c, items=_norm_items(c["items"])) if "items" in c else c for c in o["charts"]]
    return out


def build_object(model):
    """A real simfile object holding exactly the model's content (built through the public API)."""
    if model["type"] == "sm":
        sf = SMSimfile(string="")
        for k, v in model["items"]:
            sf[k] = v
        for c in model["charts"]:
            ch = SMChart.from_msd(list(c["fields"]) + list(c["extra"] or []))
            if c["extra"] is not None and not c["extra"]:
                ch.extradata = []
            sf.charts.append(ch)
        return sf
    sf = SSCSimfile(string="")
    for k, v in model["items"]:
        sf[k] = v
    for c in model["charts"]:
        ch = SSCChart()
        for k, v in c["items"]:
            ch[k] = v
        sf.charts.append(ch)
    return sf


def corpus_files():
    base = os.path.join(core.SRC, "testdata")
    out = []
    for rel in ("nekonabe/nekonabe.sm", "Springtime/Springtime.ssc", "L9/L9.ssc", "blank/blank.sm", "blank/blank.ssc"):
        p = os.path.join(base, rel)
        if os.path.exists(p):
            out.append((rel, p))
    return out


def read_corpus(path):
    with open(path, encoding="utf-8") as f:
        return f.read()


# ---------------------------------------------------------------------------
# scale: the same rules on simfiles whose size, not shape, is the point
# ---------------------------------------------------------------------------

def comma_list(k, width=3):
    """A one-line timing-style list of k entries ('0.000=120.000,1.000=121.000,...')."""
    return ",".join(f"{i}.000={120 + i % 7}.{'0' * width}" for i in range(k))


def scale_values(thorough=False):
    """
    (label, raw value): values whose length - or the place where a metacharacter sits in them - is chosen around
    the sizes at which line wrapping, block-wise writing, sniffing and buffering usually switch:
    one-line lists of 7 .. 700 entries (90 .. 11 000 characters), and each of ':', '//', '\\', ';' at every
    offset in a window before 4096 and 8192 (thorough: also 16384, 65536).
    """
    out = []
    for k in (7, 11, 90, 700):
        out.append((f"one-line list of {k} entries", comma_list(k)))
    for n in (4096, 8192) + ((16384, 65536) if thorough else ()):
        for off in range(n - 10, n + 2):
            for meta in (":", "//", "\\", ";"):
                out.append((f"{meta!r} at offset {off}", "a" * off + meta + "b" * 8))
    return out


def scale_models(fmt, thorough=False):
    """(label, model simfile) for fmt 'sm' | 'ssc': one scale value in each kind of place, many charts, many properties."""
    out = []
    head = [("VERSION", "0.83")] if fmt == "ssc" else []
    notes = "0000\n0000\n0000\n0000" + ("\n" if fmt == "ssc" else "")  # SM chart fields are trimmed on loading

    def chart(desc="d", notes_value=notes, extra_items=()):
        if fmt == "sm":
            return {"fields": ["dance-single", desc, "Easy", "1", "0,0,0,0,0", notes_value], "extra": None}
        return {"items": [("STEPSTYPE", "dance-single"), ("DESCRIPTION", desc)] + list(extra_items) + [("NOTES", notes_value)]}

    for label, v in scale_values(thorough):
        is_list = label.startswith("one-line")
        # as the value of the first property / of a timing property / in the chart
        if fmt == "sm":
            out.append((f"first property: {label}", {"type": fmt, "items": [("TITLE", v), ("ARTIST", "x")], "charts": [chart()]}))
        else:
            out.append((f"first property after VERSION: {label}", {"type": fmt, "items": head + [("TITLE", v), ("ARTIST", "x")], "charts": [chart()]}))
        if is_list:
            out.append((f"BPMS / STOPS / BGCHANGES: {label}", {"type": fmt, "items": head + [("TITLE", "t"), ("BPMS", v), ("STOPS", v), ("BGCHANGES", v)], "charts": [chart()]}))
            if fmt == "ssc":
                out.append((f"chart BPMS / LABELS: {label}", {"type": fmt, "items": head + [("TITLE", "t")], "charts": [chart(extra_items=[("BPMS", v), ("LABELS", v)])]}))
        else:
            out.append((f"note data: {label}", {"type": fmt, "items": head + [("TITLE", "t")], "charts": [chart(notes_value=v)]}))
            if label.endswith("8190") or label.endswith("4094"):
                out.append((f"description: {label}", {"type": fmt, "items": head + [("TITLE", "t")], "charts": [chart(desc=v)]}))
    for n in (17, 130) + ((1100,) if True else ()):
        out.append((f"{n} charts", {"type": fmt, "items": head + [("TITLE", "t")], "charts": [chart(desc=f"c{i}") for i in range(n)]}))
    out.append(("400 properties", {"type": fmt, "items": head + [(f"P{i:03d}", f"v{i}") for i in range(400)], "charts": [chart()]}))
    return out


def escape_value(v):
    out = []
    i = 0
    while i < len(v):
        ch = v[i]
        if ch in ":;\\":
            out.append("\\" + ch)
        elif ch == "/" and i + 1 < len(v) and v[i + 1] == "/":
            out.append("\\/")
        else:
            out.append(ch)
        i += 1
    return "".join(out)


def model_text(model):
    """A plain serialization of a model simfile (one parameter per line, values escaped), independent of the library."""
    lines = []
    for k, v in model["items"]:
        lines.append(f"#{k};" if v is None else f"#{k}:{escape_value(v)};")
    for c in model["charts"]:
        if model["type"] == "sm":
            lines.append("#NOTES:" + ":".join(escape_value(x) for x in list(c["fields"]) + list(c["extra"] or [])) + ";")
        else:
            lines.append("#NOTEDATA:;")
            for k, v in c["items"]:
                lines.append(f"#{k};" if v is None else f"#{k}:{escape_value(v)};")
    return "\n".join(lines) + "\n"


# ---------------------------------------------------------------------------
# vocabulary: values that *mean* something to StepMania, to Python or to a filesystem
# ---------------------------------------------------------------------------
# A simfile library stores text; none of these may be treated specially.  Each is put, alone, into every value and
# key context the text-level checks have.
VOCABULARY = [
    # difficulty names old and new, step types, yes/no
    "Beginner", "Easy", "Medium", "Hard", "Challenge", "Edit", "basic", "light", "another", "trick", "standard", "difficult",
    "ssr", "maniac", "heavy", "smaniac", "oni", "ONI", "expert", "dance-single", "pump-routine", "YES", "NO",
    # attack / timing syntax
    "TIME=1.000:LEN=2.000:MODS=drunk", "a\\:b:c", ": TIME=", ":\nTIME=1", "a:TIME=", "TIME=1:END=2:MODS=a:TIME=3:LEN=1:MODS=b", "0.000=4=4", "0.000=Song Start", "0.000=song start",
    # numbers in other spellings
    "1E1", "1e+1", "1.2E+2", "1_0", "0x10", "\u0661\u0662", "NaN", "inf", "-0", "+1", ".5", "0.5", "0.69", "0.7", "0.70", "0.73", "0.74", "1", "01", "1.",
    # entity and escape look-alikes
    "&#38;", "&#38;#1;", "&x41;", "&amp;", "&", "%d", "%%", "100%Pure", "\\n", "\\x41", "\\u00e9", "${HOME}", "~", "~root", "$HOME", "{0}", "{}",
    # comment, key and parameter look-alikes
    "/* c */", "<!-- c -->", "NOTES", "NOTEDATA", "#NOTES", "NOTES2", "STEPFILENAME", "None", "null", "True",
    # Unicode normal forms and case pairs
    "\u00e9", "e\u0301", "\u212b", "\u00c5", "stra\u00dfe", "STRASSE", "\u0130", "i\u0307",
]
KEY_VOCABULARY = ["NOTESX", "NOTES2X", "XNOTES", "NOTEDATA2", "STEPFILENAME", "ORIGIN ", " ORIGIN", "Origin", "STEPS", "NOTE", "TIME=", "&#38;", "%d", "~", "\u00c9", "E\u0301"]
