"""Shared by C01-C04, C18: text spaces, observation of simfile objects, model <-> object glue."""
import itertools
import os

from .. import core
from ..models import msd as M

core.import_simfile()
import simfile  # noqa: E402
from simfile.sm import SMChart, SMSimfile  # noqa: E402
from simfile.ssc import SSCChart, SSCSimfile  # noqa: E402

BOM = "﻿"

# layer P: parameter pieces (simplest first)
PIECES = [
    "#TITLE:a;",
    "#title:b;",
    "#Title;",
    "\n",
    "#VERSION:0.83;",
    "#version:1;",
    "#ATTACKS:x:y;",
    "#attacks;",
    "#DISPLAYBPM:1:2;",
    "#DISPLAYBPM:1:;",
    "#ATTACKS::y;",
    "#VERSION;",
    "#K:a\\:b;",
    "#straße:\x85 x\u2028;",
    "#NOTES:a:b:c:d:e:f;",
    "#NOTES: a\nx :b\ny:c:d:e: f :g:h;",  # step type and description that span two lines
    "#NOTES:\u3000a\xa0:b\x1c:c:\x85d:e:\u2028f\x0b:\u3000g;",
    "#NOTES:a:b;",
    "#NOTEDATA:;",
    "#STEPSTYPE:x\ny;",
    "#NOTES:0000;",
    "#NOTES;",
    "#ARTIST:e\u0301\u2126\u037e x;",
    "#NOTES:0\\\\00\\\\;",
    "#NOTES2:1111;",
    "#CREDIT:;",
    "#NOTES:;",
    "#METER:0;",
    "#NOTES:0;",
    "#TITLE:no semicolon\n",
    "stray",
    "// comment\n",
    "\r\n",
]
CORE_PIECES = [0, 1, 2, 4, 6, 9, 13, 16, 18, 24, 25]

# layer C: character-level symbols
SYMBOLS = ["a", "#", ":", ";", "\n", "\\", "/", "VERSION", "NOTES"]


def piece_texts(max_pieces, with_bom=True):
    """All sequences of <= max_pieces pieces (by length, then index order); BOM variants for non-empty ones."""
    for n in range(max_pieces + 1):
        for seq in itertools.product(range(len(PIECES)), repeat=n):
            yield seq, "".join(PIECES[i] for i in seq)


def observe(obj):
    """Whole observable state of a simfile object (type, ordered items, charts)."""
    t = type(obj).__name__
    items = list(obj.items())
    charts = []
    for ch in obj.charts:
        if isinstance(ch, SMChart):
            charts.append({"fields": [dict.get(ch, k) for k in M.SM_FIELDS], "keys": list(ch.keys()), "extra": ch.extradata})
        else:
            charts.append({"items": list(ch.items())})
    return {"type": t, "items": items, "charts": charts}


def expected_observation(model, multi_none_as_empty=False):
    """What observe() must return for a model simfile."""
    items = model["items"]
    out = {"type": "SMSimfile" if model["type"] == "sm" else "SSCSimfile", "items": list(items), "charts": []}
    for c in model["charts"]:
        if model["type"] == "sm":
            out["charts"].append({"fields": list(c["fields"]), "keys": list(c.get("key_order") or M.SM_FIELDS), "extra": c["extra"]})
        else:
            out["charts"].append({"items": list(c["items"])})
    return out


def same_observation(got, want, lenient_multi=True):
    """Equality of observations; a key-only ATTACKS/DISPLAYBPM may be None or ''."""
    if got == want:
        return True
    if not lenient_multi:
        return False
    return _norm(got) == _norm(want)


def _norm_items(items):
    return [(k, "" if (k in M.MULTI and v is None) else v) for k, v in items]


def _norm(o):
    if not isinstance(o, dict) or "items" not in o:
        return o
    out = dict(o, items=_norm_items(o["items"]))
    out["charts"] = [dict(c, items=_norm_items(c["items"])) if "items" in c else c for c in o["charts"]]
    return out


def build_object(model):
    """A real simfile object holding exactly the model's content (built through the public API)."""
    if model["type"] == "sm":
        sf = SMSimfile(string="")
        for k, v in model["items"]:
            sf[k] = v
        for c in model["charts"]:
            ch = SMChart.from_msd(list(c["fields"]) + list(c["extra"] or []))
            if c["extra"] is not None and not c["extra"]:
                ch.extradata = []
            sf.charts.append(ch)
        return sf
    sf = SSCSimfile(string="")
    for k, v in model["items"]:
        sf[k] = v
    for c in model["charts"]:
        ch = SSCChart()
        for k, v in c["items"]:
            ch[k] = v
        sf.charts.append(ch)
    return sf


def corpus_files():
    base = os.path.join(core.SRC, "testdata")
    out = []
    for rel in ("nekonabe/nekonabe.sm", "Springtime/Springtime.ssc", "L9/L9.ssc", "blank/blank.sm", "blank/blank.ssc"):
        p = os.path.join(base, rel)
        if os.path.exists(p):
            out.append((rel, p))
    return out


def read_corpus(path):
    with open(path, encoding="utf-8") as f:
        return f.read()
