"""
C08 - notes written to note data read back identically, in canonical form.

Layer S (construction tree): streams are built by appending a note at a later
position; positions = players x beats (tick-aligned and not, several measures) x
columns; every node is checked.  Layer V: type/keysound variants on short streams.
Layer W: 1..16 columns.  Layer T: decode -> re-encode stability of generated texts
(C07's format layer) and of every corpus chart.
"""
import itertools
import math
from fractions import Fraction

from .. import core
from ..models import notes as M
from . import notes_common as N

LEVEL = "model_checking"
NoteData = N.NoteData

BEATS = [
    Fraction(0), Fraction(1, 3), Fraction(1, 2), Fraction(3, 4), Fraction(1), Fraction(7, 5),
    Fraction(47, 48), Fraction(4), Fraction(9, 2), Fraction(37, 7), Fraction(9),
]
# beats whose denominators divide 192 but not 48 (32, 64, 96, 192), explored in a layer of their own
DENOM_BEATS = [Fraction(0), Fraction(5, 32), Fraction(1, 3), Fraction(95, 96), Fraction(135, 64), Fraction(767, 192), Fraction(17, 4)]
BEATS = sorted(BEATS)
REUSE_MAX = [2]
# denominators of beats for the Q layer (every divisor of 192 that a row count can need, and off-grid ones)
Q_DENOMS = [1, 2, 3, 4, 5, 6, 7, 8, 10, 12, 16, 24, 32, 48, 64, 96, 192]
Q_DENOMS_SMALL = [2, 3, 4, 5, 8, 12, 16, 24, 32, 48]
PLAYERS = (0, 1, 2)
VARIANTS = [("1", None), ("2", None), ("M", 3), ("1", 3), ("4", None), ("L", 12)]


def positions(cols):
    return [(p, b, c) for p in PLAYERS for b in BEATS for c in range(cols)]


def note_at(pos_index, pos):
    t, k = VARIANTS[pos_index % len(VARIANTS)]
    return (pos[1], pos[2], t, pos[0], k)


def fmt_stream(stream):
    return [[f"{n[0].numerator}/{n[0].denominator}", n[1], n[2], n[3], n[4]] for n in stream]


def parse_stream(js):
    return [(Fraction(b), c, t, p, k) for b, c, t, p, k in js]


def row_widths(text):
    w = set()
    for section in text.split("&"):
        for measure in section.split(","):
            for row in measure.strip().splitlines():
                w.add(len(M._CELL.findall(row.strip())))
    return w


def check_stream(stream, cols, reuse=True):
    fails = []

    def fail(clause, expected, observed):
        fails.append({"clause": clause, "expected": core.jsonable(expected), "observed": core.jsonable(observed)})

    istream = [N.to_impl(n) for n in stream]
    try:
        nd = NoteData.from_notes(iter(istream), cols)
        text = str(nd)
        back = [N.from_impl(n) for n in nd]
    except core.WatchdogTimeout:
        raise
    except Exception as e:
        fail("from_notes / iteration raised", "note data", f"{type(e).__name__}: {e}")
        return fails
    if back != stream:
        fail("notes read back differ from the notes written", stream[:10], back[:10])
    if nd.columns != cols:
        fail("column count differs from the requested one", cols, nd.columns)
    # independent reading of the text
    mnotes, mcols = M.read_notedata(text)
    if mnotes != stream or mcols != cols:
        fail("independent reader does not find exactly the written notes", {"notes": stream[:10], "cols": cols}, {"notes": mnotes[:10], "cols": mcols})
    widths = row_widths(text)
    if widths != {cols}:
        fail("rows of unequal / wrong width", [cols], sorted(widths))
    exp_struct = M.expected_structure(stream)
    obs_struct = M.observed_structure(text)
    if obs_struct != exp_struct:
        fail("player sections / measures / rows per measure are not canonical", exp_struct, obs_struct)
    if not stream and text.strip() != "\n".join(["0" * cols] * 4):
        fail("empty stream is not one blank four-row measure", "0" * cols + " x4", text)
    try:
        again = str(NoteData.from_notes(list(nd), cols))
    except core.WatchdogTimeout:
        raise
    except Exception as e:
        again = f"{type(e).__name__}: {e}"
    if again != text:
        fail("rebuilding note data from its own notes changes the text", text, again)
    if reuse:
        fails += reuse_clauses(nd, [N.to_impl(n) for n in stream], cols, text)
    return fails


def reuse_clauses(nd, inotes, cols, text):
    """
    The note data object is a value: reading it again - after a complete pass, after an abandoned pass, through
    two iterators at once - gives the same notes, and from_notes gives the same text whatever kind of iterable
    carries the notes (list, tuple, one-shot iterator, generator, the NoteData object itself).
    """
    fails = []

    def fail(clause, expected, observed):
        fails.append({"clause": clause, "expected": core.jsonable(expected), "observed": core.jsonable(observed)})

    try:
        fresh = NoteData(str(nd))  # never read before
        it = iter(fresh)
        next(it, None)  # abandoned after one note
        second = list(fresh)
        pairs = list(zip(fresh, fresh))
        third = list(nd)  # the object that has been read completely before
    except core.WatchdogTimeout:
        raise
    except Exception as e:
        fail("reading the note data again raised", "notes", f"{type(e).__name__}: {e}")
        return fails
    if second != inotes:
        fail("after an abandoned pass the note data reads differently", len(inotes), [str(n) for n in second[:6]])
    if [a for a, _ in pairs] != inotes or [b for _, b in pairs] != inotes:
        fail("two iterators over one note data object disturb each other", len(inotes), len(pairs))
    if third != inotes:
        fail("a later pass over the note data reads differently", len(inotes), [str(n) for n in third[:6]])
    # two live iterators at different rows: an outer pass paused after k notes while an inner pass runs to the end
    for k in sorted({1, len(inotes) // 2 + 1} if len(inotes) >= 2 else ()):
        try:
            nested = NoteData(str(nd))
            it = iter(nested)
            head = [next(it) for _ in range(k)]
            inner = list(nested)
            outer = head + list(it)
            if inner != inotes:
                fail("a pass started while another pass is under way reads differently", len(inotes), "different")
            elif outer != inotes:
                fail("a pass is disturbed by a pass started while it is under way", [str(n) for n in inotes[:6]], [str(n) for n in outer[:6]])
        except core.WatchdogTimeout:
            raise
        except Exception as e:
            fail("nested passes over one note data object raised", "notes", f"{type(e).__name__}: {e}")
    for label, make in (("generator", lambda: (n for n in inotes)), ("the NoteData object itself", lambda: nd)):
        try:
            t = str(NoteData.from_notes(make(), cols))
        except core.WatchdogTimeout:
            raise
        except Exception as e:
            t = f"{type(e).__name__}: {e}"
        if t != text:
            fail(f"from_notes gives another text when the notes come as {label}", text[:200], t[:200])
    return fails


def check_text(text):
    """decode -> re-encode is stable after the first pass"""
    fails = []
    try:
        nd0 = NoteData(text)
        notes0 = list(nd0)
        t1 = str(NoteData.from_notes(notes0, nd0.columns))
        nd1 = NoteData(t1)
        notes1 = list(nd1)
        t2 = str(NoteData.from_notes(notes1, nd1.columns))
    except core.WatchdogTimeout:
        raise
    except Exception as e:
        return [{"clause": "decode/re-encode raised", "expected": "stable text", "observed": f"{type(e).__name__}: {e}"}]
    if notes1 != notes0:
        fails.append({"clause": "re-encoding changed the notes", "expected": len(notes0), "observed": len(notes1)})
    if t2 != t1:
        fails.append({"clause": "re-encoding is not stable after the first pass", "expected": t1[:200], "observed": t2[:200]})
    if nd1.columns != nd0.columns:
        fails.append({"clause": "re-encoding changed the column count", "expected": nd0.columns, "observed": nd1.columns})
    # the (possibly non-canonical) source object itself, read again and used as from_notes input
    fails += reuse_clauses(nd0, notes0, nd0.columns, t1)
    return fails


def check_case(case):
    if case["kind"] == "stream":
        return check_stream(parse_stream(case["stream"]), case["cols"])
    if case["kind"] == "text":
        return check_text(case["text"])
    if case["kind"] == "corpus":
        for name, sf, chart in N.corpus_charts():
            if name == case["chart"]:
                return check_text(chart.notes)
    raise core.MachineryError("unknown case")


def report(acc, layer, case, fails):
    for f in fails:
        acc.violation(f["clause"], case, f.get("expected"), f.get("observed"), signature=(layer, f["clause"]))


def explore_shard(acc, shard):
    kind = shard[0]
    if kind == "S":
        _, cols, maxlen, first = shard
        layer = f"S streams, {cols} columns"
        pos = positions(cols)

        def rec(idxs):
            stream = [note_at(i, pos[i]) for i in idxs]
            case = {"kind": "stream", "cols": cols, "stream": fmt_stream(stream)}
            core.guard_cheap(acc, case)
            # the re-reading / input-kind clauses on every stream of <= 2 notes (quick) or every stream (thorough)
            fails = check_stream(stream, cols, reuse=len(stream) <= REUSE_MAX[0])
            acc.count("evaluations")
            acc.count("states")
            if len(stream) >= 2:
                acc.count("nontrivial")
                if len(set(n[3] for n in stream)) > 1:
                    acc.outcome("several players")
                if any(n[0].denominator not in (1, 2, 3, 4, 6, 8, 12, 16, 24, 48) for n in stream):
                    acc.outcome("off-grid beat")
                if max(n[0] for n in stream) >= 8 and min(n[0] for n in stream) < 4:
                    acc.outcome("skipped measure")
            if fails:
                report(acc, layer, case, fails)
            if len(idxs) < maxlen:
                start = idxs[-1] + 1 if idxs else 0
                for j in range(start, len(pos)):
                    acc.count("transitions")
                    rec(idxs + [j])

        if first is None:
            # root shard: the empty stream
            stream = []
            case = {"kind": "stream", "cols": cols, "stream": []}
            fails = check_stream(stream, cols)
            acc.count("evaluations")
            acc.count("states")
            acc.outcome("empty stream")
            if fails:
                report(acc, layer, case, fails)
            acc.layer(layer, positions=len(pos), max_notes=maxlen, exhaustive=True)
        else:
            acc.count("transitions")
            rec([first])
            acc.sample(layer, {"cols": cols, "first_position": pos[first], "max_notes": maxlen})
    elif kind == "V":
        # every type / keysound variant on streams of <= 2 notes over a small position set
        layer = "V type and keysound variants"
        kinds = [(t, k) for t in M.ALL_TYPES for k in (None, 0, 7, 123)]
        small = [(0, Fraction(0), 0), (0, Fraction(1, 3), 1), (1, Fraction(0), 0), (1, Fraction(17, 4), 1)]
        for (p, b, c) in small:
            for (t, k) in kinds:
                s1 = [(b, c, t, p, k)]
                for nxt in [None] + [(q, kk) for q in small if (q[0], q[1], q[2]) > (p, b, c) for kk in kinds]:
                    stream = list(s1)
                    if nxt is not None:
                        (p2, b2, c2), (t2, k2) = nxt
                        stream.append((b2, c2, t2, p2, k2))
                    case = {"kind": "stream", "cols": 2, "stream": fmt_stream(stream)}
                    core.guard_cheap(acc, case)
                    fails = check_stream(stream, 2)
                    acc.count("evaluations")
                    acc.count("states")
                    acc.count("transitions")
                    if any(n[4] is not None for n in stream):
                        acc.count("nontrivial")
                        acc.outcome("keysounded note written")
                    if fails:
                        report(acc, layer, case, fails)
        acc.sample(layer, case)
    elif kind == "D":
        layer = "D beats with denominators 32, 64, 96, 192"
        pos = [(p, b, c) for p in (0, 1) for b in DENOM_BEATS for c in (0, 1)]
        case = None
        for n in (1, 2, 3):
            for idxs in itertools.combinations(range(len(pos)), n):
                stream = [note_at(i, pos[i]) for i in idxs]
                case = {"kind": "stream", "cols": 2, "stream": fmt_stream(stream)}
                core.guard_cheap(acc, case)
                fails = check_stream(stream, 2)
                acc.count("evaluations")
                acc.count("states")
                acc.count("transitions")
                acc.count("nontrivial")
                if fails:
                    report(acc, layer, case, fails)
        acc.outcome("beat with denominator 32/64/96/192")
        acc.sample(layer, case)
    elif kind == "Q":
        # every pair / triple of beat denominators inside one measure: the measure must have exactly 4 x lcm rows
        layer = "Q denominator pairs and triples in one measure"
        _, part = shard
        case = None
        combos = [c for n in (1, 2) for c in itertools.combinations_with_replacement(Q_DENOMS, n)]
        combos += [c for c in itertools.combinations(Q_DENOMS_SMALL, 3)]
        lcms = set()
        for ci, dens in enumerate(combos):
            if ci % 4 != part:
                continue
            for base in (0, 4):  # first measure / second measure
                for lead in (False, True):  # with or without a note on the measure's first row
                    stream = [(Fraction(base), 0, "1", 0, None)] if lead else []
                    for j, d in enumerate(dens):
                        # numerators 1, d+1, 2d+1 ... : distinct beats of denominator exactly d inside the measure
                        b = Fraction(base) + Fraction((j % 3) * d + 1, d) if d > 1 else Fraction(base + 1 + j % 3)
                        stream.append((b, 1, "1", 0, None))
                    stream = sorted(set(stream))
                    if len({(n[0], n[1]) for n in stream}) != len(stream):
                        continue
                    case = {"kind": "stream", "cols": 2, "stream": fmt_stream(stream)}
                    core.guard_cheap(acc, case)
                    fails = check_stream(stream, 2)
                    lcm = 1
                    for n in stream:
                        lcm = lcm * n[0].denominator // math.gcd(lcm, n[0].denominator)
                    lcms.add(lcm)
                    acc.count("evaluations")
                    acc.count("states")
                    acc.count("transitions")
                    acc.count("nontrivial")
                    if fails:
                        report(acc, layer, case, fails)
        for q in sorted(lcms):
            acc.add_key("measure lcm", str(q))
        acc.sample(layer, case)
    elif kind == "W":
        layer = "W 1..16 columns"
        for cols in range(1, 17):
            for c in range(cols):
                for b in (Fraction(0), Fraction(5, 3), Fraction(6)):
                    for p in (0, 1):
                        stream = [(b, c, "1", p, None)]
                        if c + 1 < cols:
                            stream.append((b, c + 1, "M", p, 5))
                        case = {"kind": "stream", "cols": cols, "stream": fmt_stream(stream)}
                        core.guard_cheap(acc, case)
                        fails = check_stream(stream, cols)
                        acc.count("evaluations")
                        acc.count("states")
                        acc.count("transitions")
                        acc.count("nontrivial")
                        if fails:
                            report(acc, layer, case, fails)
        # every column of the first row keysounded (indices of 1 .. 6 digits), 1..16 columns; and notes far out
        for cols in range(1, 17):
            for ks in (7, 10, 100, 1000, 123456):
                for b in (Fraction(0), Fraction(9, 2)):
                    stream = [(b, c, "1" if c % 2 else "M", 0, ks) for c in range(cols)]
                    case = {"kind": "stream", "cols": cols, "stream": fmt_stream(stream)}
                    core.guard_cheap(acc, case)
                    fails = check_stream(stream, cols)
                    acc.count("evaluations")
                    acc.count("states")
                    acc.count("transitions")
                    acc.count("nontrivial")
                    acc.outcome("keysounded note written")
                    if fails:
                        report(acc, layer, case, fails)
        for far in (Fraction(3980), Fraction(4000), Fraction(4003, 1), Fraction(16001, 4)) + ((Fraction(40000),) if REUSE_MAX[0] > 2 else ()):
            for stream in ([(far, 0, "1", 0, None)], [(Fraction(0), 1, "2", 0, None), (far, 1, "3", 0, None)], [(far, 0, "1", 0, None), (far + Fraction(1, 48), 1, "M", 1, 5)]):
                case = {"kind": "stream", "cols": 2, "stream": fmt_stream(stream)}
                core.guard(acc, case)
                fails = check_stream(stream, 2)
                acc.count("evaluations")
                acc.count("states")
                acc.count("transitions")
                acc.count("nontrivial")
                acc.outcome("note a thousand measures out")
                if fails:
                    report(acc, layer, case, fails)
        if REUSE_MAX[0] > 2:
            # thorough only: a beat whose denominator exceeds a million (a measure of four million rows)
            stream = [(Fraction(1, 1000001), 0, "1", 0, None)]
            case = {"kind": "stream", "cols": 1, "stream": fmt_stream(stream)}
            core.guard(acc, case)
            fails = check_stream(stream, 1, reuse=False)
            acc.count("evaluations")
            acc.count("states")
            acc.count("nontrivial")
            acc.outcome("beat with a denominator above a million")
            if fails:
                report(acc, layer, case, [dict(f, expected=str(f.get("expected"))[:200], observed=str(f.get("observed"))[:200]) for f in fails])
        acc.sample(layer, case)
    elif kind == "T":
        _, shapes = shard
        layer = "T decode/re-encode of generated texts"
        styles = N.format_styles()[::7]
        for shape in shapes:
            for players in (1, 2, 3):
                sections = N.shape_sections(shape, players, 4)
                for st in styles:
                    text = N.render(sections, **st)
                    case = {"kind": "text", "text": text}
                    core.guard_cheap(acc, case)
                    fails = check_text(text)
                    # and the decoded stream as a from_notes input in its own right
                    stream = N.intended_notes(sections)
                    fails += check_stream(stream, 4) if st is styles[0] else []
                    acc.count("evaluations")
                    acc.count("states")
                    acc.count("transitions")
                    acc.count("nontrivial")
                    if fails:
                        report(acc, layer, case, fails)
        acc.sample(layer, {"shape": shape, "text": text[:120]})
    elif kind == "corpus":
        _, idx = shard
        name, sf, chart = N.corpus_charts()[idx]
        case = {"kind": "corpus", "chart": name}
        core.guard(acc, case)
        fails = check_text(chart.notes)
        nd = NoteData(chart)
        stream = [N.from_impl(n) for n in nd]
        fails += check_stream(stream, nd.columns)
        acc.count("evaluations", 2)
        acc.count("states")
        acc.count("nontrivial")
        acc.count("corpus_charts")
        if fails:
            report(acc, "corpus", case, fails)
        acc.sample("corpus", {"chart": name, "notes": len(stream)})


def explore(run):
    shards = []
    REUSE_MAX[0] = 99 if run.thorough() else 2
    plan = [(1, 4, 4), (2, 3, 4), (3, 3, 3)]  # (columns, max notes quick, max notes thorough)
    for cols, q, t in plan:
        maxlen = t if run.thorough() else q
        shards.append(("S", cols, maxlen, None))
        for i in range(len(positions(cols))):
            shards.append(("S", cols, maxlen, i))
    shards.append(("V",))
    shards.append(("W",))
    shards.append(("D",))
    shards += [("Q", i) for i in range(4)]
    shapes = N.format_shapes(run.thorough())
    if run.thorough():
        shapes = shapes[:182] + shapes[182::5]
    chunk = 6 if not run.thorough() else 24
    for i in range(0, len(shapes), chunk):
        shards.append(("T", shapes[i:i + chunk]))
    shards += [("corpus", i) for i in range(len(N.corpus_charts()))]
    k = run.seed % len(shards)
    shards = shards[k:] + shards[:k]
    run.merge(core.pmap(explore_shard, shards, run.seed))
    acc = run.acc
    run.rule = (
        "S: every position-sorted stream of <= k notes over players {0,1,2} x beats "
        + ",".join(str(b) for b in BEATS)
        + " x columns, k = "
        + ", ".join(f"{(t if run.thorough() else q)} for {c} column(s)" for c, q, t in plan)
        + " (built note by note; every prefix is a state); V: all 9 types x 4 keysound values on 1- and 2-note streams; "
        "W: 1..16 columns (also with every column keysounded, indices of 1..6 digits) and notes on beats 3980..4003 (a thousand measures of rests); D: beats with denominators 32..192; Q: every pair of beat denominators from "
        + ",".join(map(str, Q_DENOMS)) + " (and triples of the smaller ones) in one measure, first and second measure; T: decode/re-encode of generated texts (rows-per-measure shapes x players x styles) and corpus charts. "
        "Every note data object is also read again (after an abandoned pass, through two iterators at once) and fed back to from_notes as a generator and as itself"
        + (" (layer S: streams of <= 2 notes only). " if not run.thorough() else ". ")
        + "Non-trivial = at least two notes, or a keysound, or a generated/corpus text."
    )
    run.assumptions = [
        "streams satisfy from_notes' documented preconditions: sorted by (player, beat, column), one note per cell, beats >= 0, 0 <= column < columns",
        "mc/models/notes.py (independent reader, expected_structure) is the specification",
    ]
    core.require(acc.outcomes["empty stream"] > 0, "empty stream not explored")
    core.require(acc.outcomes["several players"] > 0, "no multi-player stream")
    core.require(acc.outcomes["off-grid beat"] > 0, "no off-grid beat")
    core.require(acc.outcomes["skipped measure"] > 0, "no skipped measure")
    core.require(acc.outcomes["keysounded note written"] > 0, "no keysound")
    core.require(acc.outcomes["note a thousand measures out"] > 0, "no far note")
    core.require(acc.distinct("measure lcm") >= 20, "Q layer reached too few distinct row counts")
    return run.finish(
        states=acc.c["states"],
        transitions=acc.c["transitions"],
        evaluations=acc.c["evaluations"],
        distinct_nontrivial=acc.c["nontrivial"],
    )
