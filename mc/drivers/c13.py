"""
C13 - hittability and note timing follow the warp rules exactly.

Same timeline space as C11.  In every state: hittable(b) on every probe beat (every
tick around the events on the fine grid) against the model; for every timeline with
a warp, time_notes over note data that puts every note type, plain and keysounded,
in three player sections, on every row of the timeline's grid x the three
UnhittableNotes options, compared with the model's list.
"""
from fractions import Fraction

from .. import core
from ..models import notes as MN
from ..models import timeline as T
from . import notes_common as N
from . import timing_common as TC

from simfile.notes.timed import TimedNote, UnhittableNotes, time_notes  # noqa: E402
from simfile.timing import TimingData  # noqa: E402
from simfile.timing.engine import TimingEngine  # noqa: E402
from simfile.ssc import SSCSimfile  # noqa: E402

LEVEL = "model_checking"
OPTIONS = {"TAP_TO_FAKE": UnhittableNotes.TAP_TO_FAKE, "DROP_NOTE": UnhittableNotes.DROP_NOTE, "KEEP_NOTE": UnhittableNotes.KEEP_NOTE}
EPS = 1e-9


def note_text(grid, parity):
    """
    Nine columns, one per note type; notes on the first eight rows of the timeline's
    grid, in three player sections; cell (r, c, p) is keysounded when (r+c+p+parity) is even.
    """
    rows_per_measure = 4 if grid != "fine" else 192
    nrows = 8
    sections = []
    for p in range(3):
        measures = []
        rows = []
        for r in range(nrows):
            cells = []
            for c, t in enumerate(MN.ALL_TYPES):
                cells.append(f"{t}[{c + 3 * p}]" if (r + c + p + parity) % 2 == 0 else t)
            rows.append("".join(cells))
        if rows_per_measure == 4:
            measures = [rows[0:4], rows[4:8]]
        else:
            measures = [rows + ["0" * 9] * (192 - nrows)]
        sections.append(measures)
    return N.render(sections)


def lane_text(grid):
    """
    Heads and tails alternating in one lane (column), in two player sections: an unhittable head followed by a
    hittable tail in the same lane, and the other way round; column 2 holds taps for reference.
    """
    rows_per_measure = 4 if grid != "fine" else 192
    sections = []
    for p in range(2):
        rows = []
        for r in range(8):
            c0 = "2" if (r + p) % 2 == 0 else "3"
            c1 = "4[7]" if (r + p) % 2 == 1 else "3"
            rows.append(c0 + c1 + "1")
        measures = [rows[0:4], rows[4:8]] if rows_per_measure == 4 else [rows + ["000"] * (192 - 8)]
        sections.append(measures)
    return N.render(sections)


def offtick_text():
    """384 rows per measure: notes on half ticks (between the ticks that carry the events of the fine grid)."""
    rows = ["00"] * 384
    for r in range(16):
        rows[r] = "1M" if r % 2 else "21"
    return N.render([[rows]])


def spread_text(beats):
    """One 2-column section with a tap / hold head / mine row on each given whole beat (four-row measures)."""
    last = int(max(beats)) // 4
    want = {int(b) for b in beats}
    measures = []
    for m in range(last + 1):
        rows = []
        for r in range(4):
            b = 4 * m + r
            rows.append(("1M" if b % 3 == 0 else "12" if b % 3 == 1 else "K[1234]1") if b in want else "00")
        measures.append(rows)
    return N.render([measures])


_TEXTS = {}


def texts(grid):
    key = "fine" if grid == "fine" else "coarse"
    if key not in _TEXTS:
        _TEXTS[key] = [note_text(key, 0), note_text(key, 1), lane_text(key)] + ([offtick_text()] if key == "fine" else [])
    return _TEXTS[key]


def expected_timed(model, notes, option):
    out = []
    for n in notes:
        beat = n[0]
        t = model.time_at(beat, T.STOP)
        if model.hittable(beat) or option == "KEEP_NOTE":
            out.append((t, n))
        elif option == "TAP_TO_FAKE" and n[2] == MN.TAP:
            out.append((t, (n[0], n[1], MN.FAKE, n[3], n[4])))
    return out


def check_hittable(model, engine, beats, fails):
    for b in beats:
        try:
            got = engine.hittable(TC.to_beat(b))
        except core.WatchdogTimeout:
            raise
        except Exception as e:
            got = f"{type(e).__name__}: {e}"
        want = model.hittable(b)
        if got is not want:
            fails.append({"clause": "hittable(beat) differs from 'inside a warp and no stop/delay on that beat'", "expected": want, "observed": core.jsonable(got), "beat": str(b)})
            return


def check_timing(model, td, text, fails, eps=EPS):
    notes, _ = MN.read_notedata(text)
    nd = N.NoteData(text)  # one note data object and one timing data object serve every call (they are inputs)
    snap = TC.timing_snapshot(td)
    for oname, opt in OPTIONS.items():
        want = expected_timed(model, notes, oname)
        try:
            got = list(time_notes(nd, td, opt))
            if TC.timing_snapshot(td) != snap or str(nd) != text:
                fails.append({"clause": "time_notes modified its note data or timing data argument", "expected": "unchanged", "observed": "changed", "option": oname})
                return
        except core.WatchdogTimeout:
            raise
        except Exception as e:
            fails.append({"clause": "time_notes raised", "expected": "timed notes", "observed": f"{type(e).__name__}: {e}", "option": oname})
            return
        if any(type(x) is not TimedNote for x in got):
            fails.append({"clause": "time_notes yields something that is not a TimedNote", "expected": "TimedNote", "observed": repr(got[:1]), "option": oname})
            return
        if oname == "TAP_TO_FAKE":
            dflt = list(time_notes(nd, td))
            if dflt != got:
                fails.append({"clause": "time_notes without the option does not behave like TAP_TO_FAKE (the documented default)", "expected": len(got), "observed": len(dflt)})
                return
        gnotes = [N.from_impl(x.note) for x in got]
        wnotes = [n for _, n in want]
        if gnotes != wnotes:
            # find the first difference for the report
            i = next((k for k, (a, b) in enumerate(zip(gnotes, wnotes)) if a != b), min(len(gnotes), len(wnotes)))
            fails.append({
                "clause": "timed notes differ from the documented treatment of unhittable notes",
                "expected": wnotes[i] if i < len(wnotes) else "end of list",
                "observed": gnotes[i] if i < len(gnotes) else "end of list",
                "option": oname, "index": i, "counts": [len(wnotes), len(gnotes)],
            })
            return
        for (wt, _), x in zip(want, got):
            if abs(float(x.time) - float(wt)) > eps:
                fails.append({"clause": "a timed note's time is not the time of its beat", "expected": float(wt), "observed": float(x.time), "option": oname, "note": N.from_impl(x.note)})
                return


def check_timeline(tl, grid, beats):
    fails = []
    try:
        model = T.Timeline(tl["bpms"], tl["stops"], tl["delays"], tl["warps"], tl["offset"])
        sf = SSCSimfile(string=TC.ssc_text(tl))
        td = TimingData(sf)
        engine = TimingEngine(td)
    except core.WatchdogTimeout:
        raise
    except Exception as e:
        return [{"clause": "building the engine raised", "expected": "engine", "observed": f"{type(e).__name__}: {e}"}]
    check_hittable(model, engine, beats, fails)
    if tl["warps"]:
        for text in texts(grid):
            check_timing(model, td, text, fails)
            if fails:
                break
        if not fails:
            # the same TimingData object, edited in place (same number of events, same offset), timed again:
            # the answer must follow the edit
            from simfile.timing import BeatValue
            from decimal import Decimal
            origin, step = TC.GRIDS[grid]
            b0, ln0 = tl["warps"][0]
            new_len = ln0 + step if ln0 < 3 * step else ln0 - step
            td.warps[0] = BeatValue(beat=td.warps[0].beat, value=Decimal(TC.beat_str(new_len)))
            tl2 = dict(tl, warps=[(b0, new_len)] + list(tl["warps"][1:]))
            model2 = T.Timeline(tl2["bpms"], tl2["stops"], tl2["delays"], tl2["warps"], tl2["offset"])
            before = len(fails)
            check_timing(model2, td, texts(grid)[0], fails)
            for f in fails[before:]:
                f["clause"] += " (same TimingData object timed again after an in-place edit of a warp)"
    return fails


def check_special(tl, beats):
    fails = []
    try:
        model = T.Timeline(tl["bpms"], tl["stops"], tl["delays"], tl["warps"], tl["offset"])
        td = TimingData(SSCSimfile(string=TC.ssc_text(tl)))
        engine = TimingEngine(td)
    except core.WatchdogTimeout:
        raise
    except Exception as e:
        return [{"clause": "building the engine raised", "expected": "engine", "observed": f"{type(e).__name__}: {e}"}]
    check_hittable(model, engine, beats, fails)
    if not fails:
        whole = sorted({b for b in beats if b.denominator == 1 and 0 <= b <= 8000})
        check_timing(model, td, spread_text(whole), fails)
    return fails


def check_case(case):
    if case["kind"] == "special":
        return check_special(TC.parse_tl(case["timeline"]), [Fraction(b) for b in case["beats"]])
    if case["kind"] == "timeline":
        return check_timeline(TC.parse_tl(case["timeline"]), case["grid"], [Fraction(b) for b in case["beats"]])
    raise core.MachineryError("unknown case")


def hittable_beats(grid):
    beats = set(TC.query_beats(grid))
    if grid == "fine":
        beats.update(Fraction(k, 48) for k in range(-2, 12))
    else:
        origin, step = TC.GRIDS[grid]
        beats.update(origin + Fraction(k, 4) for k in range(-2, 30))
    return sorted(beats)


def explore_shard(acc, shard):
    kind = shard[0]
    if kind == "sets":
        _, grid, famname, first, max_events, seed = shard[:6]
        tiny = len(shard) > 6 and shard[6]
        fam = TC.family(famname, seed)
        evs = TC.all_events(grid, tiny)
        beats = hittable_beats(grid)
        layer = f"{grid} grid, {famname} values" + (", with a warp shorter than half a tick" if tiny else "")

        def visit(sel):
            events = tuple(evs[i] for i in sel)
            if not TC.compatible(events):
                return False
            off = (Fraction(0), Fraction(1, 2), Fraction(-1, 4))[len(sel) % 3]
            tl = TC.concretize(grid, events, fam, off)
            case = {"kind": "timeline", "grid": grid, "timeline": TC.fmt_tl(tl), "beats": [str(b) for b in beats]}
            core.guard_cheap(acc, case)
            fails = check_timeline(tl, grid, beats)
            acc.count("states")
            nw = any(k[0] == "W" for g, k in events)
            acc.count("evaluations", len(beats) + (6 * 216 if nw else 0))
            if nw:
                acc.count("nontrivial")
                acc.outcome("timeline with a warp (notes timed)")
                if any(k in ("S", "D") for g, k in events):
                    acc.outcome("warp with a pause")
            for f in fails:
                acc.violation(f["clause"], case, f["expected"], f["observed"], signature=(f["clause"],))
            return True

        def rec(sel):
            if not visit(sel):
                return
            if len(sel) < max_events:
                for j in range(sel[-1] + 1, len(evs)):
                    acc.count("transitions")
                    rec(sel + [j])

        if first is None:
            visit([])
            acc.layer(layer, events=len(evs), max_events=max_events, hittable_probe_beats=len(beats), exhaustive=True)
        else:
            acc.count("transitions")
            rec([first])
            acc.sample(layer, {"grid": grid, "first_event": evs[first], "note_text_head": texts(grid)[0][:60]})
    elif kind == "special":
        _, idx, thorough = shard
        label, tl, beats = TC.special_timelines(thorough)[idx]
        layer = "X special timelines"
        case = {"kind": "special", "timeline": TC.fmt_tl(tl), "beats": [str(b) for b in beats], "label": label}
        core.guard(acc, case)
        fails = check_special(tl, beats)
        with core.decimal_precision(6):
            fails += [dict(f, clause=f["clause"] + " (decimal context precision 6)") for f in check_special(tl, beats)]
        acc.count("states")
        acc.count("transitions")
        acc.count("evaluations", len(beats) * 4)
        acc.count("nontrivial")
        acc.outcome("special timeline (crowded warp / long warp / far out / many digits)")
        for f in fails:
            acc.violation(f["clause"], case, f.get("expected"), f.get("observed"), signature=(f["clause"], "special"))
        acc.sample(layer, {"label": label, "probe_beats": len(beats)})
    elif kind == "corpus":
        _, idx = shard
        name, sf, chart = N.corpus_charts()[idx]
        td = TimingData(sf, chart)
        tl = {
            "bpms": [(Fraction(e.beat), Fraction(e.value)) for e in td.bpms],
            "stops": [(Fraction(e.beat), Fraction(e.value)) for e in td.stops],
            "delays": [(Fraction(e.beat), Fraction(e.value)) for e in td.delays],
            "warps": [(Fraction(e.beat), Fraction(round(Fraction(e.value) * 48), 48)) for e in td.warps],
            "offset": Fraction(td.offset),
        }
        acc.count("states")
        if any(v <= 0 for _, v in tl["bpms"]) or any(v <= 0 for _, v in tl["stops"]):
            acc.count("corpus_skipped_negative")
            return
        core.guard(acc, {"kind": "corpus", "chart": name})
        model = T.Timeline(tl["bpms"], tl["stops"], tl["delays"], tl["warps"], tl["offset"])
        fails = []
        check_timing(model, td, chart.notes, fails, eps=1e-6)
        acc.count("evaluations", 3)
        acc.count("nontrivial")
        acc.count("corpus_charts")
        for f in fails:
            acc.violation(f["clause"] + " (corpus)", {"kind": "corpus", "chart": name}, f["expected"], f["observed"], signature=("corpus", f["clause"]))
        acc.sample("corpus", {"chart": name, "warps": len(tl["warps"])})


def explore(run):
    shards = []
    plan = [("coarse", "dyadic", 3, 4), ("fine", "dyadic", 3, 4), ("coarse", "decimal", 2, 3)]
    for grid, fam, q, t in plan:
        max_events = t if run.thorough() else q
        shards.append(("sets", grid, fam, None, max_events, run.seed))
        for i in range(len(TC.all_events(grid))):
            shards.append(("sets", grid, fam, i, max_events, run.seed))
    # warps whose positive length snaps to zero ticks, alone and together with 1 (thorough: <= 3) other events
    for i in range(4):
        shards.append(("sets", "coarse", "dyadic", i, 4 if run.thorough() else 2, run.seed, True))
    shards += [("corpus", i) for i in range(len(N.corpus_charts()))]
    shards += [("special", i, run.thorough()) for i in range(len(TC.special_timelines(run.thorough())))]
    k = run.seed % len(shards)
    shards = shards[k:] + shards[:k]
    run.merge(core.pmap(explore_shard, shards, run.seed))
    acc = run.acc
    run.rule = (
        "construction tree over event sets as in C11; "
        + "; ".join(f"{g}/{f}: <= {(t if run.thorough() else q)} events" for g, f, q, t in plan)
        + "; in every state hittable() on every probe beat (every tick -2..11 on the fine grid, every quarter beat on the coarse grid); "
        "in every state with a warp time_notes over two 9-column x 8-row x 3-player texts (every note type on every grid row, keysounded on alternating cells) x 3 UnhittableNotes options; corpus charts with their own timing. "
        "Non-trivial = timeline has a warp."
        + " X: the special timelines of C11 (crowded warps, warps of 8 and 20 beats, events and notes up to beat 8000, extreme and many-digit BPMs, hour offsets): hittable at every probe beat, and a chart with a note row on every whole probe beat timed under the three options."
    )
    run.assumptions = [
        "mc/models/timeline.py decides warp membership, pauses and times; mc/models/notes.py reads the note data",
        "a fake differs from its original only in note_type",
    ]
    core.require(acc.outcomes["special timeline (crowded warp / long warp / far out / many digits)"] > 0, "no special timeline")
    core.require(acc.outcomes["timeline with a warp (notes timed)"] > 0, "no warp timeline")
    core.require(acc.outcomes["warp with a pause"] > 0, "no warp with pause")
    return run.finish(
        states=acc.c["states"],
        transitions=acc.c["transitions"],
        evaluations=acc.c["evaluations"],
        distinct_nontrivial=acc.c["nontrivial"],
    )
