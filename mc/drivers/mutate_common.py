"""Shared by C05 / C06: file worlds (MemoryFS + native), content classes, edit scripts, the mutate harness."""
import copy
import os
import shutil
import tempfile

from .. import core
from .. import fsseam
from ..models import msd as M
from . import text_common as X

import simfile  # noqa: E402

ENCODINGS = ["utf-8", "cp1252", "cp932", "cp949"]
SMSimfile, SSCSimfile, SMChart, SSCChart = X.SMSimfile, X.SSCSimfile, X.SMChart, X.SSCChart


def decodes(data, enc):
    try:
        data.decode(enc)
        return True
    except UnicodeDecodeError:
        return False


def signature(data, encs=ENCODINGS):
    return tuple(decodes(data, e) for e in encs)


_REPS = None


def representatives():
    """One payload (<= 2 bytes, no CR, no MSD metacharacter) per decodability signature, found by brute force."""
    global _REPS
    if _REPS is None:
        reps = {}
        bad = set(b"\r#:;\\/\n")
        cands = [bytes([a]) for a in range(256)] + [bytes([a, b]) for a in range(128, 256) for b in range(256)]
        for p in cands:
            if any(x in bad for x in p):
                continue
            s = signature(p)
            reps.setdefault(s, p)
        _REPS = reps
    return _REPS


def expected_encoding(data, tried):
    for e in tried:
        if decodes(data, e):
            return e
    return None


def translate(text):
    return text.replace("\r\n", "\n").replace("\r", "\n")


_UNIQ = [0]


def file_bytes(ext, payload, with_chart, key_only=False, unique=False, variant=None):
    """
    unique=True adds a property whose key and value differ in every call, so that anything left over from an
    earlier run (a shared buffer, a cache) shows up as a foreign key in a later file.
    variant: None | 'unterminated' (the last parameter has neither ';' nor a line break behind it)
                  | 'crlf' (CRLF line ends, also inside a multi-line value)
                  | 'empty' | 'commentonly' | 'chartsonly' (files without any header property)
                  | 'longlist' (one-line lists of up to 90 entries)
    """
    if variant == "empty":
        return b""
    if variant == "commentonly":
        # no parameter at all: the loaded simfile is an empty mapping without charts
        return b"// " + payload + b"\n\n"
    if variant == "chartsonly":
        # charts but no header property (an SSC file without VERSION is still an SSC file by its name)
        if ext == ".ssc":
            return b"#NOTEDATA:;\n#STEPSTYPE:dance-single;\n#DESCRIPTION:" + payload + b";\n#NOTES:\n0000\n;\n"
        return b"#NOTES:\n     dance-single:\n     " + payload + b":\n     Easy:\n     1:\n     0,0:\n0000\n;\n"
    head = b"#VERSION:0.83;\n" if ext == ".ssc" else b""
    body = b"#TITLE:" + payload + b";\n#ARTIST:x;\n" + (b"#GENRE;\n" if key_only else b"")
    if unique:
        _UNIQ[0] += 1
        body += b"#RUN%d:r%d;\n" % (_UNIQ[0], _UNIQ[0])
    if with_chart:
        # the note data carries an escaped ':' (as attack blocks do), so it only survives if it is escaped again
        if ext == ".ssc":
            body += b"#NOTEDATA:;\n#STEPSTYPE:dance-single;\n#DESCRIPTION:" + payload + b";\n#NOTES:\n0000\n1{2x\\:4}00\n;\n"
        else:
            body += b"#NOTES:\n     dance-single:\n     " + payload + b":\n     Easy:\n     1:\n     0,0:\n0000\n1{2x\\:4}00\n;\n"
    if variant in ("big70k", "big1m"):
        # many ordinary parameters: a file of about 70 KB / 1.1 MB (beyond 65536 characters / one MiB)
        n = 1400 if variant == "big70k" else 22000
        body += b"".join(b"#P%05d:%s;\n" % (i, b"v" * 40) for i in range(n))
    if variant == "longlist":
        # one-line lists of 7, 11 and 90 entries (about 90, 150 and 1200 characters)
        body += b"#BPMS:" + X.comma_list(7).encode() + b";\n#STOPS:" + X.comma_list(11).encode() + b";\n#BGCHANGES:" + X.comma_list(90).encode() + b";\n"
    if variant == "unterminated":
        body += b"#CREDIT:last value without semicolon"
    data = head + body
    if variant == "crlf":
        data = data.replace(b"\n", b"\r\n") + b"#BGCHANGES:1=a,\r\n2=b;\r\n"
    return data


class World:
    """A directory on one filesystem ('mem' or 'nat') with snapshot support; calls can be counted / failed."""

    def __init__(self, which):
        self.which = which
        if which == "mem":
            self.fs = fsseam.SeamMemoryFS()
            self.base = "/w"
            self.fs.makedirs(self.base, recreate=True)
        else:
            self.fs = fsseam.SeamNativeFS()
            self.base = tempfile.mkdtemp(prefix="verif-mut-")

    def close(self):
        if self.which == "mem":
            self.fs.close()
        else:
            shutil.rmtree(self.base, ignore_errors=True)

    def path(self, name):
        return self.base + "/" + name if self.which == "mem" else os.path.join(self.base, name)

    def reset(self, files):
        c, self.fs.counting = self.fs.counting, False
        try:
            if self.which == "mem":
                self.fs.removetree(self.base)
                self.fs.makedirs(self.base, recreate=True)
                for n, data in files.items():
                    self.fs.writebytes(self.path(n), data)
            else:
                for n in os.listdir(self.base):
                    p = os.path.join(self.base, n)
                    shutil.rmtree(p) if os.path.isdir(p) else os.remove(p)
                for n, data in files.items():
                    with open(self.path(n), "wb") as f:
                        f.write(data)
        finally:
            self.fs.counting = c

    def snapshot(self):
        c, self.fs.counting = self.fs.counting, False
        try:
            if self.which == "mem":
                return {p[len(self.base) + 1:]: self.fs.readbytes(p) for p in self.fs.walk.files(self.base)}
            return fsseam.native_snapshot(self.base)
        finally:
            self.fs.counting = c


# ---------------------------------------------------------------------------
# edit scripts
# ---------------------------------------------------------------------------

ENCODABLE = {"utf-8": "猫é한", "cp1252": "é€", "cp932": "猫ｱ", "cp949": "한글", "ascii": "z"}
EDITS = ["noop", "title_ascii", "title_enc", "del_key", "append_chart", "keyonly", "set_new"]


UNENCODABLE = {"utf-8": "\ud800", "cp1252": "猫", "cp932": "한", "cp949": "\U0001f600", "ascii": "é"}


def apply_edit(sf, op, enc):
    if op == "noop":
        return
    if op == "title_unencodable":
        # a character the detected encoding lacks: saving may fail (C06 judges that), but if mutate
        # completes, the output must still decode in the detected encoding to exactly this simfile
        sf.title = "x" + UNENCODABLE.get(enc, "\ud800")
        return
    if op == "title_ascii":
        sf.title = "New Title"
    elif op == "title_enc":
        sf.title = ENCODABLE.get(enc, "z")
    elif op == "del_key":
        if "ARTIST" in sf:
            del sf["ARTIST"]
    elif op == "append_chart":
        sf.charts.append((SSCChart if isinstance(sf, SSCSimfile) else SMChart).blank())
    elif op == "keyonly":
        sf["GENRE"] = None
    elif op == "set_new":
        sf["SUBTITLE"] = "a:b;c"
    else:
        raise core.MachineryError(op)


def parse_as(ext, data, enc, translate_newlines=True):
    text = data.decode(enc)
    if translate_newlines:
        text = translate(text)
    cls = SSCSimfile if ext == ".ssc" else SMSimfile
    return cls(string=text)


def canon_obs(sf):
    o = X.observe(sf)
    m = {"type": "sm" if o["type"] == "SMSimfile" else "ssc", "items": [tuple(i) for i in o["items"]],
         "charts": [({"fields": list(c["fields"]), "extra": c["extra"] or None} if "fields" in c else {"items": [tuple(i) for i in c["items"]]}) for c in o["charts"]]}
    return M.canonical(m)
