"""
C20 - asset lookup: the named file if it exists, else a pattern match, else None.

Shape I over directory contents x simfile property states x listing orders x
filesystems: every subset of a name alphabet covering hit / near-miss / miss for
every documented pattern; per asset kind every property state (absent, empty
simfile object, empty, exact, other case, missing, in a sub-directory in other case,
sub-directory in other case, missing sub-directory); simfile given or loaded; pack
banners with images inside and beside the pack.
"""
import itertools
import os
import shutil
import tempfile

from .. import core
from .. import fsseam
from ..models import assets as MA

import fs.path  # noqa: E402
from simfile.assets import Assets  # noqa: E402
from simfile.dir import SimfilePack  # noqa: E402
from simfile.sm import SMSimfile  # noqa: E402
from simfile.ssc import SSCSimfile  # noqa: E402

LEVEL = "model_checking"

NAMES = [
    "banner.png", "MyBANNER.JPG", "xbn.PNG", "bnx.png", "background.png", "Song-bg.jpg", "bgm.txt", "cdtitle.gif", "CDTitle2.png",
    "jk_x.png", "xjk_.png", "jacket.jpg", "AlbumArt.bmp", "x-cd.png", "x-cd2.png", "x disc.png", "x title.png",
    "song.OGG", "song.mp3x", "track.wav", "bn", "notes.txt", "readme.bg", "Banner-BG.gif",
    "a.mp3", "b.oga", "old_mp3", "cover_png", "CDTİTLE.png", "cdtıtle.png", ".ogg", ".png",
]
PROP_OF = {"BANNER": "BANNER", "BACKGROUND": "BACKGROUND", "CDTITLE": "CDTITLE", "JACKET": "JACKET", "CDIMAGE": "CDIMAGE", "MUSIC": "MUSIC"}
ATTR_OF = {"BANNER": "banner", "BACKGROUND": "background", "CDTITLE": "cdtitle", "JACKET": "jacket", "CDIMAGE": "cdimage", "MUSIC": "music"}
# per kind: (a file that the property may name, a pattern hit, a near miss)
KIND_FILES = {
    "BANNER": ("Cover.PNG", "xbn.PNG", "bnx.png"),
    "BACKGROUND": ("Wall.jpg", "Song-bg.jpg", "bgm.txt"),
    "CDTITLE": ("Logo.gif", "cdtitle.gif", "cdtitl.gif"),
    "JACKET": ("Front.png", "jk_x.png", "xjk_.png"),
    "CDIMAGE": ("Disc.png", "x-cd.png", "x-cd2.png"),
    "MUSIC": ("Audio.bin", "song.OGG", "song.mp3x"),
}
STATES = ["absent", "emptysimfile", "empty", "exact", "othercase", "missing", "sub-othercase", "SUB-wrongcase", "nosuch", "spaced", "dotted", "updown", "toolong", "nfc-names-nfd-file"]
SPACED_PREFIX, SPACED_SUFFIX = " ", "　"  # a file whose real name begins with a blank and ends with U+3000


class World:
    def __init__(self):
        self.mem = fsseam.SeamMemoryFS()
        self.nat = fsseam.SeamNativeFS()
        self.root = tempfile.mkdtemp(prefix="verif-c20-")
        self.n = 0

    def close(self):
        shutil.rmtree(self.root, ignore_errors=True)
        self.mem.close()

    def make_song(self, tree):
        """The tree as a directory named 'Song' (so that entries such as 'Song-bg.jpg' begin with the directory's name)."""
        m, n = self.make({"Song": tree})
        return m + "/Song", os.path.join(n, "Song")

    def drop_song(self, mpath, npath):
        self.drop(fs.path.dirname(mpath), os.path.dirname(npath))

    def make(self, tree):
        self.n += 1
        name = f"t{self.n}"
        mroot, nroot = f"/{name}", os.path.join(self.root, name)
        self.mem.makedirs(mroot, recreate=True)
        os.makedirs(nroot)

        def rec(t, mp, np_):
            for k, v in t.items():
                if isinstance(v, dict):
                    self.mem.makedirs(fs.path.join(mp, k), recreate=True)
                    os.makedirs(os.path.join(np_, k), exist_ok=True)
                    rec(v, fs.path.join(mp, k), os.path.join(np_, k))
                else:
                    self.mem.writebytes(fs.path.join(mp, k), v or b"x")
                    with open(os.path.join(np_, k), "wb") as f:
                        f.write(v or b"x")

        rec(tree, mroot, nroot)
        return mroot, nroot

    def drop(self, mroot, nroot):
        self.mem.removetree(mroot)
        shutil.rmtree(nroot, ignore_errors=True)


def norm(fsname, p):
    if p is None:
        return None
    return fs.path.normpath(p) if fsname == "mem" else os.path.normpath(p)


def join(fsname, *parts):
    return fs.path.join(*parts) if fsname == "mem" else os.path.join(*parts)


def exists(fsname, fsobj, p):
    return fsobj.exists(p) if fsname == "mem" else os.path.exists(p)


def model_tree(tree):
    return {k: ({kk: None for kk in v} if isinstance(v, dict) else None) for k, v in tree.items()}


def respell(fsname, base, how):
    """The same directory written another way (the answers are normalized paths all the same)."""
    if how == "plain":
        return base
    head, tail = (fs.path.split(base) if fsname == "mem" else os.path.split(base))
    sep = "/" if fsname == "mem" else os.sep
    if how == "dot":
        return head + sep + "." + sep + tail
    if how == "updown":
        return base + sep + ".." + sep + tail
    if how == "doubled":
        return head + sep + sep + tail
    raise core.MachineryError(how)


DIRSPELLS = ("plain", "dot", "updown", "doubled", "relative")


def check_assets(world, tree, props, order, paths, given=True, empty_simfile=False, kinds=MA.KINDS, dirspell="plain"):
    """tree: directory content (name -> bytes | dict). props: simfile properties (dict)."""
    fails = []
    for fsname, fsobj, real_base in (("mem", world.mem, paths[0]), ("nat", world.nat, paths[1])):
        if dirspell != "relative":
            fails += _check_assets_on(fsname, fsobj, real_base, respell(fsname, real_base, dirspell), tree, props, order, given, empty_simfile, kinds, lambda p: norm(fsname, p))
        elif fsname == "mem":
            # PyFilesystem resolves a relative path from the filesystem's root
            fails += _check_assets_on(fsname, fsobj, real_base, real_base.lstrip("/"), tree, props, order, given, empty_simfile, kinds,
                                      lambda p: fs.path.abspath(fs.path.normpath(p)))
        else:
            cwd = os.getcwd()
            try:
                os.chdir(os.path.dirname(real_base))
                fails += _check_assets_on(fsname, fsobj, real_base, os.path.basename(real_base), tree, props, order, given, empty_simfile, kinds,
                                          lambda p: os.path.normpath(os.path.abspath(p)))
            finally:
                os.chdir(cwd)
    return fails


def _check_assets_on(fsname, fsobj, real_base, base, tree, props, order, given, empty_simfile, kinds, canon):
    """canon: answer -> the absolute normalized path it denotes (for relative spellings evaluated in the right cwd)."""
    fails = []
    mt = model_tree(tree)
    if True:
        fsobj.order = order
        tag = {"fs": fsname}
        if given:
            sf = SMSimfile(string="")
            if not empty_simfile:
                sf["TITLE"] = "t"
            for k, v in props.items():
                sf[k] = v
            res = core.outcome_of(lambda: Assets(base, simfile=sf, filesystem=fsobj))
        else:
            res = core.outcome_of(lambda: Assets(base, filesystem=fsobj))
        if res[0] != "ok":
            fails.append({"clause": "Assets(...) raised", "expected": "asset loader", "observed": res, **tag})
            return fails
        loaders = [("Assets", res[1])]
        if not given:
            # the same loader obtained through SimfileDirectory.assets()
            from simfile.dir import SimfileDirectory
            r2 = core.outcome_of(lambda: SimfileDirectory(base, filesystem=fsobj).assets())
            if r2[0] != "ok":
                fails.append({"clause": "SimfileDirectory.assets() raised", "expected": "asset loader", "observed": r2, **tag})
            else:
                loaders.append(("SimfileDirectory.assets()", r2[1]))
            # loading options are passed on to the simfile reader when no simfile is given
            r3 = core.outcome_of(lambda: Assets(base, filesystem=fsobj, strict=False))
            if r3[0] != "ok":
                fails.append({"clause": "Assets(dir, strict=False) raised", "expected": "asset loader", "observed": r3, **tag})
            else:
                loaders.append(("Assets(strict=False)", r3[1]))
        for lname, a in loaders:
          for kind in kinds:
              want = {norm(fsname, join(fsname, real_base, *parts)) for parts in MA.acceptable(kind, props.get(PROP_OF[kind]), mt)}
              r1 = core.outcome_of(lambda: getattr(a, ATTR_OF[kind]))
              if r1[0] != "ok":
                  fails.append({"clause": "asset lookup raised", "expected": sorted(want) or None, "observed": r1, "kind": kind, **tag})
                  continue
              got = r1[1]
              if (got is None) != (not want) or (got is not None and canon(got) not in want):
                  fails.append({"clause": "asset answer is not the named file (case-insensitive) / a pattern match / None", "expected": sorted(want) or None, "observed": got, "kind": kind, **tag})
                  continue
              if got is not None and (not exists(fsname, fsobj, got) or got != norm(fsname, got)):
                  fails.append({"clause": "asset answer is not an existing, normalized path", "expected": "existing normalized path", "observed": got, "kind": kind, **tag})
              r2 = core.outcome_of(lambda: getattr(a, ATTR_OF[kind]))
              if r2 != r1:
                  fails.append({"clause": "asking again returns a different answer", "expected": r1, "observed": r2, "kind": kind, **tag})
    return fails


def prop_value(kind, state):
    named = KIND_FILES[kind][0]
    if state in ("absent", "emptysimfile"):
        return None
    if state == "empty":
        return ""
    if state == "exact":
        return named
    if state == "othercase":
        return named.swapcase()
    if state == "missing":
        return "nothere.png"
    if state == "sub-othercase":
        return "sub/" + named.swapcase()
    if state == "SUB-wrongcase":
        return "SUB/" + named
    if state == "nosuch":
        return "nosuch/" + named
    if state == "spaced":
        return SPACED_PREFIX + named + SPACED_SUFFIX
    if state == "nfc-names-nfd-file":
        return "caf\u00e9 " + named  # the directory holds the decomposed spelling "cafe\u0301 ..." only (extra "nfd-named")
    if state == "toolong":
        return "a" * 252 + ".png"  # a missing file whose name is longer than most filesystems allow (256 characters)
    if state == "dotted":
        return "./" + named
    if state == "updown":
        return "sub/../" + named.swapcase()  # only used when the directory 'sub' exists
    raise core.MachineryError(state)


def check_pack_banner(world, inside, beside, order, slash):
    fails = []
    tree = {"Songs": {"MyPack": {**{n: b"x" for n in inside}, "song": {"a.sm": b"#TITLE:a;"}}, **{n: b"x" for n in beside}}}
    paths = world.make(tree)
    try:
        for fsname, fsobj, base in (("mem", world.mem, paths[0]), ("nat", world.nat, paths[1])):
            fsobj.order = order
            pdir = join(fsname, base, "Songs", "MyPack") + ("/" if slash else "")
            want = set()
            acceptable, none_ok = MA.pack_banner_acceptable(inside, beside, "MyPack")
            for where, n in acceptable:
                want.add(norm(fsname, join(fsname, base, "Songs", "MyPack", n) if where == "in" else join(fsname, base, "Songs", n)))
            r = core.outcome_of(lambda: SimfilePack(pdir, filesystem=fsobj).banner())
            if r[0] != "ok":
                fails.append({"clause": "pack banner lookup raised", "expected": sorted(want) or None, "observed": r, "fs": fsname})
                continue
            got = r[1]
            if (got is None and not none_ok) or (got is not None and norm(fsname, got) not in want):
                fails.append({"clause": "pack banner is not the best-priority image in the pack / the image beside it carrying its name / None", "expected": sorted(want) or None, "observed": got, "fs": fsname})
            elif got is not None and not exists(fsname, fsobj, got):
                fails.append({"clause": "pack banner path does not exist", "expected": "existing path", "observed": got, "fs": fsname})
            # the same pack named relative to the current directory (native only): bare name, './name', with a slash
            if fsname == "nat" and order == 0 and len(beside) <= 1:
                cwd = os.getcwd()
                try:
                    os.chdir(join("nat", base, "Songs"))
                    for rel in ("MyPack", "./MyPack", "MyPack/", "../Songs/MyPack"):
                        rr = core.outcome_of(lambda: SimfilePack(rel, filesystem=fsobj).banner())
                        if rr[0] != "ok":
                            fails.append({"clause": "pack banner lookup raised for a pack named relative to the current directory", "expected": sorted(want) or None, "observed": rr, "pack": rel})
                            continue
                        g = rr[1]
                        ga = None if g is None else os.path.normpath(os.path.abspath(g))
                        if (ga is None and not none_ok) or (ga is not None and ga not in want):
                            fails.append({"clause": "pack banner differs when the pack is named relative to the current directory", "expected": sorted(want) or None, "observed": g, "pack": rel})
                finally:
                    os.chdir(cwd)
    finally:
        world.drop(*paths)
    return fails


def check_case(case):
    world = World()
    try:
        if case["kind"] == "content":
            tree = {n: b"x" for n in case["names"]}
            ws = case.get("with_simfile")
            if ws:
                sname = "song.sm" if ws is True else ws
                tree[sname] = b"#VERSION:0.83;\n#TITLE:t;\n" if sname.endswith(".ssc") else b"#TITLE:t;"
            paths = world.make_song(tree)
            return check_assets(world, tree, {}, case["order"], paths, given=not case.get("with_simfile"), dirspell=case.get("dirspell", "plain"))
        if case["kind"] == "property":
            tree, props = property_tree(case["asset"], case["state"], case["extra"])
            paths = world.make_song(tree)
            return check_assets(world, tree, props, case["order"], paths, given=True, empty_simfile=(case["state"] == "emptysimfile"), kinds=(case["asset"],), dirspell=case.get("dirspell", "plain"))
        if case["kind"] == "pairs":
            acc = core.Acc()
            explore_shard(acc, ("pairs", case["a"]))
            return [{"clause": v["clause"], "expected": v.get("expected"), "observed": v.get("observed")} for v in acc.violations]
        if case["kind"] == "packbanner":
            return check_pack_banner(world, case["inside"], case["beside"], case["order"], case["slash"])
    finally:
        world.close()
    raise core.MachineryError("unknown case")


def property_tree(kind, state, extra):
    named, hit, miss = KIND_FILES[kind]
    tree = {}
    for e in extra:
        if e == "named":
            tree[named] = b"x"
        elif e == "named-dup-case":
            tree[named.lower()] = b"x"
        elif e == "hit":
            tree[hit] = b"x"
        elif e == "miss":
            tree[miss] = b"x"
        elif e == "sub-named":
            tree.setdefault("sub", {})[named] = b"x"
        elif e == "sub-empty":
            tree.setdefault("sub", {})
        elif e == "named-spaced":
            tree[SPACED_PREFIX + named + SPACED_SUFFIX] = b"x"
        elif e == "nfd-named":
            tree["cafe\u0301 " + named] = b"x"
    v = prop_value(kind, state)
    props = {} if v is None else {PROP_OF[kind]: v}
    return tree, props


EXTRAS = ["named", "hit", "miss", "sub-named", "sub-empty", "named-spaced", "nfd-named"]


def explore_shard(acc, shard):
    kind = shard[0]
    world = World()
    try:
        if kind == "content":
            _, first, maxn = shard
            layer = "directory contents (no properties)"
            rest = NAMES[first + 1:] if first is not None else []
            subsets = [[]] if first is None else [[NAMES[first]] + list(s) for r in range(0, maxn) for s in itertools.combinations(rest, r)]
            case = None
            for names in subsets:
                # the simfile in the directory: none (one is given) | song.sm | bg.sm / Song-bn.ssc, whose own names hit a pattern
                for with_simfile in (False, True, "bg.sm", "Song-bn.ssc"):
                    tree = {n: b"x" for n in names}
                    if with_simfile:
                        sname = "song.sm" if with_simfile is True else with_simfile
                        tree[sname] = b"#VERSION:0.83;\n#TITLE:t;\n" if sname.endswith(".ssc") else b"#TITLE:t;"
                    if with_simfile not in (False, True) and len(names) > 1:
                        continue
                    paths = world.make_song(tree)
                    acc.count("states")
                    if len(names) >= 2:
                        acc.count("nontrivial")
                    for order, dirspell in [(o, "plain") for o in range(fsseam.orders_for(len(tree)))] + [(0, "relative")]:
                        case = {"kind": "content", "names": names, "order": order, "with_simfile": with_simfile, "dirspell": dirspell}
                        core.guard_cheap(acc, case)
                        fails = check_assets(world, tree, {}, order, paths, given=not with_simfile, dirspell=dirspell)
                        if dirspell == "relative":
                            acc.outcome("directory named relative to the current directory")
                        acc.count("transitions")
                        acc.count("evaluations", 12)
                        n_match = sum(1 for k in MA.KINDS if sum(MA.matches(k, n) for n in names) >= 2)
                        if n_match:
                            acc.outcome("several entries match one kind")
                        for f in fails:
                            acc.violation(f["clause"], case, f["expected"], f["observed"], signature=(f["clause"], f.get("kind")))
                    world.drop_song(*paths)
            if case:
                acc.sample(layer, case)
        elif kind == "property":
            _, asset, states = shard
            layer = "specified property states"
            case = None
            for state in states:
                for r in range(0, 4):
                    for extra in itertools.combinations(EXTRAS, r):
                        if "sub-named" in extra and "sub-empty" in extra:
                            continue
                        if state == "updown" and not ("sub-named" in extra or "sub-empty" in extra):
                            continue  # 'sub/..' is only unambiguous when 'sub' exists
                        if ("nfd-named" in extra) != (state == "nfc-names-nfd-file") and not (state == "exact" and "nfd-named" in extra and len(extra) <= 2):
                            continue  # the decomposed spelling is only of interest next to the composed one
                        tree, props = property_tree(asset, state, extra)
                        paths = world.make_song(tree)
                        acc.count("states")
                        acc.count("nontrivial")
                        nent = len(tree)
                        for order in range(fsseam.orders_for(nent)):
                          for dirspell in (DIRSPELLS if order == 0 and state in ("absent", "exact", "sub-othercase", "dotted") else ("plain",)):
                            case = {"kind": "property", "asset": asset, "state": state, "extra": list(extra), "order": order, "dirspell": dirspell}
                            core.guard_cheap(acc, case)
                            fails = check_assets(world, tree, props, order, paths, given=True, empty_simfile=(state == "emptysimfile"), kinds=(asset,), dirspell=dirspell)
                            acc.count("transitions")
                            acc.count("evaluations", 2)
                            if dirspell != "plain" or state in ("dotted", "updown"):
                                acc.outcome("directory or property spelled in a way normalization changes")
                            if state in ("othercase", "sub-othercase") and ("named" in extra or "sub-named" in extra):
                                acc.outcome("specified file found in another letter case")
                            if state in ("missing", "nosuch", "SUB-wrongcase"):
                                acc.outcome("specified file missing: fall back to the pattern")
                            if state == "spaced" and "named-spaced" in extra:
                                acc.outcome("specified file whose name begins/ends with blanks")
                            if state == "emptysimfile":
                                acc.outcome("completely empty simfile object given")
                            for f in fails:
                                acc.violation(f["clause"], case, f["expected"], f["observed"], signature=(f["clause"], state if "raised" in f["clause"] else None))
                        world.drop_song(*paths)
            acc.sample(layer, case)
        elif kind == "pairs":
            # two kinds specified on ONE loader object, asked one after the other: an answer must not depend on
            # what the object resolved before (e.g. the second property names the first one's file through a
            # sub-directory written in another letter case - which does not exist)
            _, a_kind = shard
            layer = "two properties on one loader"
            case = None
            for b_kind in MA.KINDS:
                if b_kind == a_kind:
                    continue
                tree = {}
                for k in (a_kind, b_kind):
                    t, _ = property_tree(k, "exact", ("named", "sub-named", "hit"))
                    for name, v in t.items():
                        if isinstance(v, dict):
                            tree.setdefault(name, {}).update(v)
                        else:
                            tree[name] = v
                paths = world.make_song(tree)  # one tree serves every pair of states
                for st_a in ("exact", "sub-othercase", "othercase"):
                    for st_b in ("exact", "sub-othercase", "SUB-wrongcase", "cross", "cross-exact", "missing"):
                        va = prop_value(a_kind, st_a)
                        if st_b == "cross":
                            vb = "SUB/" + KIND_FILES[a_kind][0]  # the other kind's file through a directory that does not exist
                        elif st_b == "cross-exact":
                            vb = "sub/" + KIND_FILES[a_kind][0].swapcase()  # the other kind's file, legitimately
                        else:
                            vb = prop_value(b_kind, st_b)
                        props = {PROP_OF[a_kind]: va, PROP_OF[b_kind]: vb}
                        for kinds in ((a_kind, b_kind), (b_kind, a_kind)):
                            case = {"kind": "pairs", "a": a_kind, "b": b_kind, "state_a": st_a, "state_b": st_b, "ask": list(kinds)}
                            core.guard_cheap(acc, case)
                            fails = check_assets(world, tree, props, 0, paths, given=True, kinds=kinds)
                            acc.count("states")
                            acc.count("transitions")
                            acc.count("evaluations", 4)
                            acc.count("nontrivial")
                            acc.outcome("two properties asked on one loader")
                            for f in fails:
                                acc.violation(f["clause"], case, f["expected"], f["observed"], signature=(f["clause"], "pairs"))
                world.drop_song(*paths)
            acc.sample(layer, case)
        elif kind == "packbanner":
            _, first = shard
            layer = "pack banners"
            imgs = ["a.png", "B.JPG", "c.jpeg", "d.GIF", "e.bmp", "f.txt", "z.PNG", "cover_png", "x.jpgx"]
            besides = [[], ["MyPack.png"], ["MyPack.jpg", "MyPack.bmp"], ["Other.png"], ["mypack.png"], ["MyPack.gif", "Other.png"]]
            # when nothing inside the pack qualifies, every set of <= 2 neighbours, including names that merely
            # begin / end with the pack's name or carry a further extension
            NEIGHBOURS = ["MyPack.png", "MyPack.jpg", "MyPack.jpeg", "MyPack.gif", "MyPack.bmp", "mypack.png", "MyPack.PNG", "Other.png",
                          "MyPack 2.png", "MyPackX.jpg", "XMyPack.png", "MyPack.txt", "MyPack.png.bak", "MyPack.2.gif", "MyPackpng"]
            besides_full = [list(c) for r in range(0, 3) for c in itertools.combinations(NEIGHBOURS, r)]
            idx = imgs.index(first) if first is not None else None
            subsets = [[]] if first is None else [[first] + list(s) for r in range(0, 3) for s in itertools.combinations(imgs[idx + 1:], r)]
            case = None
            for inside in subsets:
                no_image_inside = not any(n.lower().endswith(e) for n in inside for e in MA.IMAGE_PRIORITY)
                for beside in (besides_full if no_image_inside else besides):
                    acc.count("states")
                    if inside or beside:
                        acc.count("nontrivial")
                    for order in range(fsseam.orders_for(len(inside) + 1)):
                        for slash in ((False, True) if order == 0 else (False,)):
                            case = {"kind": "packbanner", "inside": inside, "beside": beside, "order": order, "slash": slash}
                            core.guard_cheap(acc, case)
                            fails = check_pack_banner(world, inside, beside, order, slash)
                            acc.count("transitions")
                            acc.count("evaluations", 2)
                            if no_image_inside and beside:
                                acc.outcome("banner beside the pack")
                            if no_image_inside and any(n not in ("Other.png",) and not MA.pack_banner_acceptable([], [n], "MyPack")[0] for n in beside):
                                acc.outcome("neighbour whose name only resembles the pack's")
                            for f in fails:
                                acc.violation(f["clause"], case, f["expected"], f["observed"], signature=(f["clause"],))
            if case:
                acc.sample(layer, case)
    finally:
        world.close()


def explore(run):
    shards = []
    maxn = 3 if run.thorough() else 2
    shards.append(("content", None, 0))
    for i in range(len(NAMES)):
        shards.append(("content", i, maxn))
    for asset in MA.KINDS:
        for i in range(0, len(STATES), 2):
            shards.append(("property", asset, tuple(STATES[i:i + 2])))
    for k in MA.KINDS:
        shards.append(("pairs", k))
    shards.append(("packbanner", None))
    for img in ["a.png", "B.JPG", "c.jpeg", "d.GIF", "e.bmp", "f.txt", "z.PNG", "cover_png", "x.jpgx"]:
        shards.append(("packbanner", img))
    k = run.seed % len(shards)
    shards = shards[k:] + shards[:k]
    run.merge(core.pmap(explore_shard, shards, run.seed))
    acc = run.acc
    run.rule = (
        f"contents: every subset of <= {maxn} names from a {len(NAMES)}-name alphabet (hit / near-miss / miss for every pattern, mixed case), with the simfile given or loaded from the directory, every listing order; "
        f"properties: per asset kind every state in {STATES} x every subset of <= 3 of {EXTRAS} (named file, pattern hit, near miss, named file in sub/, empty sub/) x every listing order; "
        "pack banners: <= 3 of 7 entries inside x 6 sets beside (every set of <= 2 of 15 neighbours, look-alike names included, when no image is inside) x listing orders x trailing slash; all on MemoryFS and a native temporary directory. "
        "Which of several matching entries is returned is not claimed (any is accepted); the disc image lookup is not claimed. Non-trivial = at least two entries / a property state."
    )
    run.assumptions = ["mc/models/assets.py states the documented patterns; listing order is chosen through the filesystem seam"]
    core.require(acc.outcomes["several entries match one kind"] > 0, "never several matches")
    core.require(acc.outcomes["specified file found in another letter case"] > 0, "case-insensitive hit never exercised")
    core.require(acc.outcomes["specified file missing: fall back to the pattern"] > 0, "fallback never exercised")
    core.require(acc.outcomes["completely empty simfile object given"] > 0, "empty simfile never given")
    core.require(acc.outcomes["specified file whose name begins/ends with blanks"] > 0, "no blank-edged file name")
    core.require(acc.outcomes["banner beside the pack"] > 0, "no banner beside pack")
    core.require(acc.outcomes["two properties asked on one loader"] > 0, "no pair of properties")
    core.require(acc.outcomes["directory named relative to the current directory"] > 0, "no relative directory")
    core.require(acc.outcomes["neighbour whose name only resembles the pack's"] > 0, "no look-alike neighbour")
    return run.finish(
        states=acc.c["states"],
        transitions=acc.c["transitions"],
        evaluations=acc.c["evaluations"],
        distinct_nontrivial=acc.c["nontrivial"],
    )
