"""
Shape H for C01 / C02: breadth-first exploration of edit histories on real simfile
objects with state matching, in lock-step with a dictionary model, and the
serialize -> strict parse -> compare round-trip oracle evaluated in every state.
"""
import copy
import json

from .. import core
from ..models import msd as M
from . import text_common as X

from msdparser import parse_msd  # trusted tokenizer  # noqa: E402

simfile = X.simfile
SMSimfile, SSCSimfile, SMChart, SSCChart = X.SMSimfile, X.SSCSimfile, X.SMChart, X.SSCChart

ALIASES = {"sm": {"stops": ("STOPS", "FREEZES"), "bgchanges": ("BGCHANGES", "ANIMATIONS")},
           "ssc": {"bgchanges": ("BGCHANGES", "ANIMATIONS")}}
CHART_ALIASES = {"notes": ("NOTES", "NOTES2")}


def fresh(s):
    """An equal but distinct string object (for len >= 2; shorter strings are shared by CPython)."""
    return "".join(list(s))


def value_of(spec):
    if isinstance(spec, (tuple, list)) and len(spec) == 2 and spec[0] == "fresh":
        return fresh(spec[1])
    return spec


# ---------------------------------------------------------------------------
# model operations
# ---------------------------------------------------------------------------


def m_get(items, key):
    for k, v in items:
        if k == key:
            return True, v
    return False, None


def m_set(items, key, value):
    M.put(items, key, value)


def m_del(items, key):
    for i, (k, _) in enumerate(items):
        if k == key:
            del items[i]
            return True
    return False


def attr_key(items, std, alias):
    keys = [k for k, _ in items]
    if std not in keys and alias and alias in keys:
        return alias
    return std


def std_key(kind, attr, chart=False):
    table = CHART_ALIASES if chart else ALIASES[kind]
    if attr in table:
        return table[attr]
    return (attr.upper(), None)


class Space:
    """Chart factories for one format (model chart, real chart)."""

    def __init__(self, kind):
        self.kind = kind
        if kind == "sm":
            b = SMChart.blank()
            self.blank_fields = [dict.get(b, k) for k in M.SM_FIELDS]
        else:
            b = SSCChart.blank()
            self.blank_items = list(b.items())

    def chart(self, name):
        """returns (model chart, real chart) for a named chart template"""
        if self.kind == "sm":
            if name == "blank":
                return {"fields": list(self.blank_fields), "extra": None}, SMChart.blank()
            if name == "meta":
                f = ["a:b", ";c", "d\\e", "//f", "g\nh", "00\n01"]
                return {"fields": list(f), "extra": None}, SMChart.from_msd(list(f))
            if name == "extra":
                f = ["dance-single", "", "Easy", "3", "0,0", "0000\n0000"]
                return {"fields": list(f), "extra": ["", "e:1"]}, SMChart.from_msd(list(f) + ["", "e:1"])
            if name == "scratch":
                # a chart filled from scratch by attribute assignment, in another order than the documented one
                f = ["pump-single", "s", "Hard", "9", "1,2", "00000\n00001"]
                ch = SMChart()
                for i in (5, 2, 0, 4, 1, 3):
                    setattr(ch, M.SM_FIELDS[i].lower(), f[i])
                return {"fields": list(f), "extra": None, "key_order": [M.SM_FIELDS[i] for i in (5, 2, 0, 4, 1, 3)]}, ch
        else:
            if name == "blank":
                return {"items": list(self.blank_items)}, SSCChart.blank()
            specs = {
                "n2first": [("NOTES2", "1111"), ("STEPSTYPE", "x"), ("METER", "0")],
                "mid": [("STEPSTYPE", "a:b"), ("NOTES", "0"), ("METER", "0"), ("ATTACKS", "p:q"), ("CREDIT", "")],
                "empties": [("STEPSTYPE", "x"), ("DESCRIPTION", ""), ("CREDIT", ""), ("NOTES", "")],
                "last": [("CHARTNAME", None), ("DISPLAYBPM", "1:2"), ("NOTES", "00\n01")],
            }
            if name in specs:
                ch = SSCChart()
                for k, v in specs[name]:
                    ch[k] = v
                return {"items": list(specs[name])}, ch
        raise core.MachineryError(f"unknown chart template {name}")


def apply_model(space, m, op):
    """Apply op to model m in place. Returns False when the op is not enabled in this state."""
    kind = space.kind
    o = op[0]
    items, charts = m["items"], m["charts"]
    if o == "ser":
        # serializing is an observation, but it is part of the history: an implementation that
        # remembers anything across serializations must still show later edits
        m["serialized_before"] = True
    elif o == "set":
        m_set(items, op[1], value_of(op[2]))
    elif o == "del":
        return m_del(items, op[1])
    elif o == "alias":
        ok, v = m_get(items, op[2])
        if not ok:
            return False
        m_set(items, op[1], v)
    elif o == "pop":
        return m_del(items, op[1])
    elif o == "popitem":
        if not items:
            return False
        items.pop()
    elif o == "move_to_end":
        ok, v = m_get(items, op[1])
        if not ok:
            return False
        m_del(items, op[1])
        items.append((op[1], v))
    elif o == "update":
        for k, v in op[1]:
            m_set(items, k, v)
    elif o == "setdefault":
        ok, _ = m_get(items, op[1])
        if not ok:
            m_set(items, op[1], op[2])
    elif o == "clear":
        if not items:
            return False
        del items[:]
    elif o == "aset":
        std, alias = std_key(kind, op[1])
        m_set(items, attr_key(items, std, alias), value_of(op[2]))
    elif o == "adel":
        std, alias = std_key(kind, op[1])
        return m_del(items, attr_key(items, std, alias))
    elif o == "c_append":
        charts.append(space.chart(op[1])[0])
    elif o == "c_insert0":
        charts.insert(0, space.chart(op[1])[0])
    elif o == "c_pop":
        if not charts:
            return False
        charts.pop()
    elif o == "c_reverse":
        if len(charts) < 2:
            return False
        charts.reverse()
    elif o == "c_set0":
        if not charts:
            return False
        charts[0] = space.chart(op[1])[0]
    elif o == "c_assign":
        m["charts"] = [space.chart(n)[0] for n in op[1]]
    elif o == "c_dup":
        if not charts:
            return False
        charts.append(copy.deepcopy(charts[0]))
    elif o == "c_extra_append":
        if op[1] >= len(charts) or charts[op[1]]["extra"] is None:
            return False
        charts[op[1]]["extra"].append(op[2])
    elif o in ("cf_attr", "cf_key", "c_extra", "ck_set", "ck_del", "ck_alias", "ck_aset", "ck_adel", "ck_pop", "ck_popitem", "ck_move_to_end", "ck_update", "ck_clear"):
        idx = op[1]
        if idx >= len(charts):
            return False
        ch = charts[idx]
        if o in ("cf_attr", "cf_key"):
            key = op[2].upper()
            ch["fields"][M.SM_FIELDS.index(key)] = value_of(op[3])
        elif o == "c_extra":
            ch["extra"] = None if op[2] is None else list(op[2])
        elif o == "ck_set":
            m_set(ch["items"], op[2], value_of(op[3]))
        elif o == "ck_del":
            return m_del(ch["items"], op[2])
        elif o == "ck_alias":
            ok, v = m_get(ch["items"], op[3])
            if not ok:
                return False
            m_set(ch["items"], op[2], v)
        elif o == "ck_pop":
            return m_del(ch["items"], op[2])
        elif o == "ck_popitem":
            if not ch["items"]:
                return False
            ch["items"].pop()
        elif o == "ck_move_to_end":
            ok, v = m_get(ch["items"], op[2])
            if not ok:
                return False
            m_del(ch["items"], op[2])
            ch["items"].append((op[2], v))
        elif o == "ck_update":
            for k, v in op[2]:
                m_set(ch["items"], k, v)
        elif o == "ck_clear":
            if not ch["items"]:
                return False
            del ch["items"][:]
        elif o == "ck_aset":
            std, alias = std_key(kind, op[2], chart=True)
            m_set(ch["items"], attr_key(ch["items"], std, alias), value_of(op[3]))
        elif o == "ck_adel":
            std, alias = std_key(kind, op[2], chart=True)
            return m_del(ch["items"], attr_key(ch["items"], std, alias))
    else:
        raise core.MachineryError(f"unknown op {op}")
    return True


def apply_real(space, obj, op):
    o = op[0]
    if o == "ser":
        try:
            str(obj)
        except core.WatchdogTimeout:
            raise
        except Exception:
            pass  # judged by the round-trip oracle when the state is inside the domain
        return
    if o == "set":
        obj[op[1]] = value_of(op[2])
    elif o == "del":
        del obj[op[1]]
    elif o == "alias":
        obj[op[1]] = obj[op[2]]
    elif o == "pop":
        obj.pop(op[1])
    elif o == "popitem":
        obj.popitem()
    elif o == "move_to_end":
        obj.move_to_end(op[1])
    elif o == "update":
        obj.update(dict(op[1]))
    elif o == "setdefault":
        obj.setdefault(op[1], op[2])
    elif o == "clear":
        obj.clear()
    elif o == "c_extra_append":
        obj.charts[op[1]].extradata.append(op[2])
    elif o == "aset":
        setattr(obj, op[1], value_of(op[2]))
    elif o == "adel":
        delattr(obj, op[1])
    elif o == "c_append":
        obj.charts.append(space.chart(op[1])[1])
    elif o == "c_insert0":
        obj.charts.insert(0, space.chart(op[1])[1])
    elif o == "c_pop":
        obj.charts.pop()
    elif o == "c_reverse":
        obj.charts.reverse()
    elif o == "c_set0":
        obj.charts[0] = space.chart(op[1])[1]
    elif o == "c_assign":
        obj.charts = [space.chart(n)[1] for n in op[1]]
    elif o == "c_dup":
        obj.charts.append(copy.deepcopy(obj.charts[0]))
    else:
        ch = obj.charts[op[1]]
        if o == "cf_attr":
            setattr(ch, op[2], value_of(op[3]))
        elif o == "cf_key":
            ch[op[2]] = value_of(op[3])
        elif o == "c_extra":
            ch.extradata = None if op[2] is None else list(op[2])
        elif o == "ck_set":
            ch[op[2]] = value_of(op[3])
        elif o == "ck_del":
            del ch[op[2]]
        elif o == "ck_alias":
            ch[op[2]] = ch[op[3]]
        elif o == "ck_pop":
            ch.pop(op[2])
        elif o == "ck_popitem":
            ch.popitem()
        elif o == "ck_move_to_end":
            ch.move_to_end(op[2])
        elif o == "ck_update":
            ch.update(dict(op[2]))
        elif o == "ck_clear":
            ch.clear()
        elif o == "ck_aset":
            setattr(ch, op[2], value_of(op[3]))
        elif o == "ck_adel":
            delattr(ch, op[2])


# ---------------------------------------------------------------------------
# state key
# ---------------------------------------------------------------------------


def identity_partition(obj):
    seen = {}
    out = []

    def visit(v):
        if isinstance(v, str):
            out.append(seen.setdefault(id(v), len(seen)))
        else:
            out.append(-1)

    for v in obj.values():
        visit(v)
    for ch in getattr(obj, "_charts", []) or []:
        for v in dict.values(ch):
            visit(v)
        for v in getattr(ch, "extradata", None) or []:
            visit(v)
    return out


def state_key(obj, obs, serialized_before=False):
    return json.dumps([core.jsonable(obs), identity_partition(obj), bool(serialized_before)], ensure_ascii=True)


# ---------------------------------------------------------------------------
# the round-trip oracle
# ---------------------------------------------------------------------------


def in_domain(model):
    """None when the state is inside the property's domain, else the reason it is not."""
    t = model["type"]
    for k, v in model["items"]:
        if not isinstance(k, str) or k != k.upper() or k == ("NOTES" if t == "sm" else "NOTEDATA"):
            return "simfile key outside the domain"
        if v is not None and not isinstance(v, str):
            return "non-string value"
    for c in model["charts"]:
        if t == "sm":
            for f in c["fields"]:
                if not isinstance(f, str) or f != f.strip():
                    return "chart field not a trimmed string"
        else:
            keys = [k for k, _ in c["items"]]
            if ("NOTES" in keys) == ("NOTES2" in keys):
                return "SSC chart without exactly one of NOTES/NOTES2"
            if any(k != k.upper() or k == "NOTEDATA" for k in keys):
                return "chart key outside the domain"
    return None


def tokens_ok(model, text):
    """Token structure of the serialized text (clauses d, e)."""
    tok = M.tokenize(text, ignore_stray=False)
    if tok[0] != "ok":
        return f"tokenizer verdict {tok[0]}"
    want = M.expected_params(model)
    got = tok[1]
    if len(got) != len(want):
        return f"{len(got)} parameters instead of {len(want)}"
    for g, w in zip(got, want):
        if model["type"] == "sm" and w[0] == "NOTES":
            if g[0] != "NOTES" or [c.strip() for c in g[1:7]] != [c.strip() for c in w[1:7]] or list(g[7:]) != list(w[7:]) or len(g) < 7:
                return f"chart parameter {g!r} does not carry the six fields in order followed by the extra components"
        elif tuple(g) != tuple(w):
            return f"parameter {g!r} instead of {w!r}"
    return None


def check_roundtrip(model, obj):
    """All round-trip clauses for one state. Returns (failures, status)."""
    why = in_domain(model)
    if why:
        return [], "out_of_domain:" + why
    params = M.expected_params(model)
    if M.dependency_gap(params):
        if M.gap_explained(params):
            return [], "excluded:dependency gap"
        return [{"clause": "msdparser cannot round-trip a value and no listed pattern explains it", "expected": "explained gap", "observed": core.jsonable(params)}], "ok"
    fails = []

    def fail(clause, expected, observed):
        fails.append({"clause": clause, "expected": core.jsonable(expected), "observed": core.jsonable(observed)})

    cls = SMSimfile if model["type"] == "sm" else SSCSimfile
    try:
        text = str(obj)
    except core.WatchdogTimeout:
        raise
    except Exception as e:
        fail("serializing the simfile raised", "text", f"{type(e).__name__}: {e}")
        return fails, "ok"
    bad = tokens_ok(model, text)
    if bad:
        fail("serialized text does not have the documented parameter structure", "NOTES/NOTEDATA structure, unescaped multi-value components", bad)
    try:
        back = cls(string=text)
    except core.WatchdogTimeout:
        raise
    except Exception as e:
        fail("the strict parser rejects the serialized text", "accepted", f"{type(e).__name__}: {e}")
        return fails, "ok"
    want = X.expected_observation(M.canonical(model))
    got = X.observe(back)
    norm = lambda o: dict(o, charts=[dict(c, extra=c["extra"] or None) if "extra" in c else c for c in o["charts"]])
    if norm(got) != norm(want):
        fail("strictly parsing the serialized simfile does not give back the same simfile", want, got)
    try:
        if str(back) != text:
            fail("serializing the result again does not reproduce the text", text[:300], str(back)[:300])
    except core.WatchdogTimeout:
        raise
    except Exception as e:
        fail("serializing the reloaded simfile raised", "text", f"{type(e).__name__}: {e}")
    # equality as the library defines it
    canonical_already = M.canonical(model) == model or model["type"] == "sm"
    try:
        if canonical_already and not (back == obj):
            fail("the reloaded simfile does not compare equal to the original", "equal", "not equal")
    except core.WatchdogTimeout:
        raise
    except Exception as e:
        fail("comparing original and reloaded simfile raised", "equal", f"{type(e).__name__}: {e}")
    # auto-detection
    first = model["items"][0][0] if model["items"] else None
    try:
        auto = simfile.loads(text)
        if model["type"] == "sm" and first != "VERSION" and type(auto) is not SMSimfile:
            fail("serialized SM simfile is not auto-detected as SM", "SMSimfile", type(auto).__name__)
        if model["type"] == "ssc" and first == "VERSION" and type(auto) is not SSCSimfile:
            fail("serialized SSC simfile (VERSION first) is not auto-detected as SSC", "SSCSimfile", type(auto).__name__)
        if (model["type"] == "sm") == (type(auto) is SMSimfile) and norm(X.observe(auto)) != norm(want):
            fail("simfile.loads of the serialized text gives a different simfile", want, X.observe(auto))
    except core.WatchdogTimeout:
        raise
    except Exception as e:
        if (model["type"] == "sm" and first != "VERSION") or (model["type"] == "ssc" and first == "VERSION"):
            fail("simfile.loads rejects the serialized text", "accepted", f"{type(e).__name__}: {e}")
    # stand-alone SSC charts
    if model["type"] == "ssc":
        for mc, ch in zip(model["charts"], obj.charts):
            try:
                again = SSCChart.from_str(str(ch))
                nk = M.ssc_notes_key(mc["items"])
                exp_items = [(k, v) for k, v in mc["items"] if k != nk] + [(nk, dict(mc["items"])[nk])]
                if list(again.items()) != exp_items:
                    fail("SSCChart.from_str(str(chart)) does not give the chart back (notes last)", exp_items, list(again.items()))
            except core.WatchdogTimeout:
                raise
            except Exception as e:
                fail("SSCChart.from_str(str(chart)) raised", "chart", f"{type(e).__name__}: {e}")
    return fails, "ok"


# ---------------------------------------------------------------------------
# BFS
# ---------------------------------------------------------------------------


def model_from_object(obj):
    o = X.observe(obj)
    if o["type"] == "SMSimfile":
        return {"type": "sm", "items": [tuple(i) for i in o["items"]], "charts": [{"fields": list(c["fields"]), "extra": c["extra"]} for c in o["charts"]]}
    return {"type": "ssc", "items": [tuple(i) for i in o["items"]], "charts": [{"items": [tuple(i) for i in c["items"]]} for c in o["charts"]]}


def bfs(acc, space, layer, init_name, init_model, make_obj, ops, depth, first_op=None, prop="C01"):
    """
    Explore all histories of <= depth operations from one initial state (optionally only
    those starting with ops[first_op]); check the model agreement and the round-trip
    oracle in every distinct state reached.

    Live objects are never copied: the object of every state is rebuilt by replaying the
    state's whole history on a fresh initial object (make_obj()), so whatever the
    implementation remembers between operations - including between serializations, which
    are operations of the alphabet ('ser') - is carried along exactly as in real use.
    """
    SER = ("ser",)
    all_ops = list(ops) + [SER]

    def rebuild(history):
        """fresh object + replay; returns (obj, None) or (None, (op, exception))"""
        obj = make_obj()
        for op in history:
            try:
                apply_real(space, obj, op)
            except core.WatchdogTimeout:
                raise
            except Exception as e:
                return None, (op, e)
        return obj, None

    def visit(model, history):
        """Returns (key, case, obj) for a state to be explored further, or None."""
        case = {"kind": "history", "init": init_name, "ops": [core.jsonable(list(o)) for o in history]}
        core.guard_cheap(acc, case)
        obj, err = rebuild(history)
        if err is not None:
            op, e = err
            acc.violation("an enabled edit operation raised", case, "applied", f"{type(e).__name__}: {e}", signature=("op", op[0], type(e).__name__))
            return None
        try:
            obs = X.observe(obj)
        except core.WatchdogTimeout:
            raise
        except Exception as e:
            acc.violation("observing the object raised (no chart list?)", case, "items and charts", f"{type(e).__name__}: {e}", signature=("observe", type(e).__name__))
            return None
        want = X.expected_observation(model)
        if obs != want:
            acc.violation("object state differs from the dictionary model after this history", case, want, obs, signature=("model", history[-1][0] if history else "init"))
            return None
        return state_key(obj, obs, model.get("serialized_before")), case, obj

    seen = set()
    if first_op is None:
        start = [(copy.deepcopy(init_model), [])]
    else:
        m2 = copy.deepcopy(init_model)
        op0 = all_ops[first_op]
        if not apply_model(space, m2, op0):
            return
        acc.count("transitions")
        start = [(m2, [op0])]
    level = []
    for model, hist in start:
        r = visit(model, hist)
        if r is None:
            continue
        key, case, obj = r
        if key not in seen:
            seen.add(key)
            level.append((model, hist, key))
    d = len(start[0][1])
    while level:
        nxt = []
        for model, hist, key in level:
            # live objects are not kept in the frontier (memory): the state's object is rebuilt from its history
            case = {"kind": "history", "init": init_name, "ops": [core.jsonable(list(o)) for o in hist]}
            core.guard_cheap(acc, case)  # also on the deepest level, where no successor is visited
            obj, err = rebuild(hist)
            if err is not None:
                continue  # already reported when the state was first visited
            acc.add_key("states", prop + key)
            acc.count("states_visited")
            fails, status = check_roundtrip(model, obj)
            acc.count("evaluations")
            if status != "ok":
                acc.count(status.split(":")[0])
                acc.outcome(status)
            else:
                acc.count("roundtrips_checked")
                if model["charts"] or any(v is None or any(ch in (v or "") for ch in ":;\\/\n") for _, v in model["items"]):
                    acc.count("nontrivial")
                if any(v is None for _, v in model["items"]):
                    acc.outcome("state with a key-only (None) property")
                if model["charts"]:
                    acc.outcome("state with charts")
                if model.get("serialized_before"):
                    acc.outcome("state reached after an earlier serialization")
            for f in fails:
                acc.violation(f["clause"], case, f["expected"], f["observed"], signature=(f["clause"], str(f["observed"])[:30] if "raised" in f["clause"] else None))
            if d >= depth:
                continue
            for op in all_ops:
                if op == SER and hist and hist[-1] == SER:
                    continue  # two serializations in a row: same as one
                m2 = copy.deepcopy(model)
                if not apply_model(space, m2, op):
                    continue
                acc.count("transitions")
                h2 = hist + [op]
                r = visit(m2, h2)
                if r is None:
                    continue
                key2, case2, obj2 = r
                # equality sees the content: an edit that changed the content must make the objects unequal
                # (SM charts compare their six fields only, so a change of extra components alone is exempt)
                if _eq_content(m2) != _eq_content(model):
                    try:
                        same = (obj2 == obj) or not (obj2 != obj)
                    except core.WatchdogTimeout:
                        raise
                    except Exception as e:
                        same = f"{type(e).__name__}: {e}"
                    if same is not False:
                        acc.violation("simfiles with different properties or charts compare equal", case2, "not equal", same, signature=("eq", op[0]))
                if key2 in seen:
                    continue
                seen.add(key2)
                nxt.append((m2, h2, key2))
        level = nxt
        d += 1
    acc.sample(layer, {"init": init_name, "first_op": core.jsonable(list(all_ops[first_op])) if first_op is not None else None, "distinct_states_in_shard": len(seen)})


def de_bruijn2(n):
    """A cyclic sequence over range(n) in which every ordered pair (a, b) occurs consecutively exactly once."""
    seq = []
    a = [0] * (2 * n)

    def db(t, p):
        if t > 2:
            if 2 % p == 0:
                seq.extend(a[1:p + 1])
        else:
            a[t] = a[t - p]
            db(t + 1, p)
            for j in range(a[t - p] + 1, n):
                a[t] = j
                db(t + 1, t)

    db(1, 1)
    return seq + seq[:1]


def long_walk(acc, space, layer, init_name, init_model, make_obj, ops, prop="C01", check_every=16):
    """
    One uninterrupted history on ONE live object in which every ordered pair of operations (including 'serialize')
    occurs consecutively (an order-2 de Bruijn sequence over the operation alphabet; operations the model does not
    enable in the state reached are skipped).  The model follows in lock-step; the object is compared with it after
    every operation and the round-trip oracle runs every `check_every` operations and at the end.  Complements the
    breadth-first search (all histories up to a small depth, fresh object per state) with a history of about
    |ops|^2 steps, for state an implementation may accumulate over many operations.
    """
    all_ops = list(ops) + [("ser",)]
    order = de_bruijn2(len(all_ops))
    model = copy.deepcopy(init_model)
    obj = make_obj()
    hist = []
    applied = 0
    pairs = set()
    last = None

    def case():
        return {"kind": "history", "init": init_name, "ops": [core.jsonable(list(o)) for o in hist]}

    for idx in order:
        op = all_ops[idx]
        m2 = copy.deepcopy(model)
        if not apply_model(space, m2, op):
            last = None
            continue
        hist.append(op)
        core.guard_cheap(acc, {"kind": "history", "init": init_name, "ops": [core.jsonable(list(o)) for o in hist[-60:]], "note": "tail of a long walk"})
        try:
            apply_real(space, obj, op)
        except core.WatchdogTimeout:
            raise
        except Exception as e:
            acc.violation("an enabled edit operation raised", case(), "applied", f"{type(e).__name__}: {e}", signature=("walk-op", op[0], type(e).__name__))
            return
        model = m2
        applied += 1
        if last is not None:
            pairs.add((last, idx))
        last = idx
        acc.count("transitions")
        try:
            obs = X.observe(obj)
        except core.WatchdogTimeout:
            raise
        except Exception as e:
            acc.violation("observing the object raised (no chart list?)", case(), "items and charts", f"{type(e).__name__}: {e}", signature=("walk-observe",))
            return
        want = X.expected_observation(model)
        if obs != want:
            acc.violation("object state differs from the dictionary model after this history", case(), want, obs, signature=("walk-model", op[0]))
            return
        if applied % check_every == 0:
            fails, status = check_roundtrip(model, obj)
            acc.count("evaluations")
            if status == "ok":
                acc.count("roundtrips_checked")
            for f in fails:
                acc.violation(f["clause"], case(), f["expected"], f["observed"], signature=("walk", f["clause"]))
            if fails:
                return
    fails, status = check_roundtrip(model, obj)
    acc.count("evaluations")
    for f in fails:
        acc.violation(f["clause"], case(), f["expected"], f["observed"], signature=("walk", f["clause"]))
    acc.count("states")
    acc.count("nontrivial")
    acc.count("walk_steps", applied)
    acc.outcome("long walk on one live object")
    acc.layer(layer, init=init_name, operations=len(all_ops), steps=applied, consecutive_pairs_realised=len(pairs), of=len(all_ops) ** 2)


def _eq_content(m):
    """What the library's equality is documented to look at: items in order, charts (SM: six fields)."""
    charts = [tuple(c["fields"]) if "fields" in c else tuple(c["items"]) for c in m["charts"]]
    return (m["type"], tuple(m["items"]), tuple(charts))


def key_prefix(init_name):
    return ""  # states reached from different initial states are merged when identical


def replay_history(space, init_model, init_obj, ops_json):
    """Used by --replay: re-run one history without the explorer (init_obj must be a fresh object)."""
    model, obj = copy.deepcopy(init_model), init_obj
    fails = []
    for op in ops_json:
        if not apply_model(space, model, op):
            return [{"clause": "replay: operation not enabled", "op": list(op)}]
        try:
            apply_real(space, obj, op)
        except Exception as e:
            return [{"clause": "an enabled edit operation raised", "observed": f"{type(e).__name__}: {e}"}]
    try:
        obs = X.observe(obj)
    except Exception as e:
        return [{"clause": "observing the object raised (no chart list?)", "observed": f"{type(e).__name__}: {e}"}]
    if obs != X.expected_observation(model):
        fails.append({"clause": "object state differs from the dictionary model after this history", "expected": core.jsonable(X.expected_observation(model)), "observed": core.jsonable(obs)})
        return fails
    f2, status = check_roundtrip(model, obj)
    return fails + f2
