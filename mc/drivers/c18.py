"""
C18 - attribute and key views of a simfile or chart never disagree.

Shape H with a closed state graph: for each object kind and each known property
(aliased or not) the model's state space is finite (ordered partial assignments of
the standard key, the alias key and one unrelated key to three values) and the
operation set is closed on it, so breadth-first search runs to a fixpoint: every
reachable state, every operation from it, i.e. histories of any length.  The SM chart
(six fixed fields) is explored the same way over {values}^6.
"""
import copy
import itertools

from .. import core
from ..models import msd as M
from . import text_common as X

from msdparser import parse_msd  # noqa: E402

SMSimfile, SSCSimfile, SMChart, SSCChart = X.SMSimfile, X.SSCSimfile, X.SMChart, X.SSCChart
LEVEL = "model_checking"

KINDS = {
    "SMSimfile": (lambda: SMSimfile(string=""), "TITLE"),
    "SSCSimfile": (lambda: SSCSimfile(string=""), "TITLE"),
    "SSCChart": (lambda: SSCChart(), "STEPSTYPE"),
}
BARE = {"SMSimfile": lambda: SMSimfile(), "SSCSimfile": lambda: SSCSimfile()}
ALIASED = {
    "SMSimfile": {"stops": ("STOPS", "FREEZES"), "bgchanges": ("BGCHANGES", "ANIMATIONS")},
    "SSCSimfile": {"bgchanges": ("BGCHANGES", "ANIMATIONS")},
    "SSCChart": {"notes": ("NOTES", "NOTES2")},
}


# The known properties, transcribed from the documentation (docs/source/known-properties.rst); the attribute is
# the lower-cased key.  Not taken from the classes by introspection: a property that disappears from a class
# must be noticed, not silently skipped.
_SIMFILE_BASE = ("TITLE SUBTITLE ARTIST TITLETRANSLIT SUBTITLETRANSLIT ARTISTTRANSLIT GENRE CREDIT BANNER BACKGROUND LYRICSPATH "
                 "CDTITLE MUSIC OFFSET BPMS STOPS DELAYS TIMESIGNATURES TICKCOUNTS INSTRUMENTTRACK SAMPLESTART SAMPLELENGTH DISPLAYBPM "
                 "SELECTABLE BGCHANGES FGCHANGES KEYSOUNDS ATTACKS").split()
_SSC_SIMFILE = "VERSION ORIGIN PREVIEWVID JACKET CDIMAGE DISCIMAGE PREVIEW MUSICLENGTH LASTSECONDHINT WARPS LABELS COMBOS SPEEDS SCROLLS FAKES".split()
_CHART_BASE = "STEPSTYPE DESCRIPTION DIFFICULTY METER RADARVALUES NOTES".split()
_SSC_CHART = ("CHARTNAME CHARTSTYLE CREDIT MUSIC BPMS STOPS DELAYS TIMESIGNATURES TICKCOUNTS COMBOS WARPS SPEEDS SCROLLS FAKES LABELS "
              "ATTACKS OFFSET DISPLAYBPM").split()
DOCUMENTED = {
    "SMSimfile": _SIMFILE_BASE,
    "SSCSimfile": _SIMFILE_BASE + _SSC_SIMFILE,
    "SSCChart": _CHART_BASE + _SSC_CHART,
}


def known_properties(cls):
    """attribute name -> standard key, from the documented table"""
    return {k.lower(): k for k in DOCUMENTED[cls.__name__]}


# ---------------------------------------------------------------------------
# model of one property (std, alias, other)
# ---------------------------------------------------------------------------


def resolve(state, std, alias):
    keys = [k for k, _ in state]
    if std not in keys and alias and alias in keys:
        return alias
    return std


def m_apply(state, op, std, alias):
    """state: tuple of (key, value). Returns (new state, result) with result ('ok', v) or ('exc', 'KeyError')."""
    items = list(state)
    d = dict(items)
    o = op[0]
    if o == "aget":
        return state, ("ok", d.get(resolve(state, std, alias)))
    if o == "aset":
        M.put(items, resolve(state, std, alias), op[1])
        return tuple(items), ("ok", None)
    if o == "adel":
        k = resolve(state, std, alias)
        if k not in d:
            return state, ("exc", "KeyError")
        return tuple(i for i in items if i[0] != k), ("ok", None)
    if o == "items":
        return state, ("ok", list(items))
    k = op[1]
    if o == "kget":
        return state, (("ok", d[k]) if k in d else ("exc", "KeyError"))
    if o == "kset":
        M.put(items, k, op[2])
        return tuple(items), ("ok", None)
    if o == "kdel":
        if k not in d:
            return state, ("exc", "KeyError")
        return tuple(i for i in items if i[0] != k), ("ok", None)
    if o == "kin":
        return state, ("ok", k in d)
    if o == "items":
        return state, ("ok", list(items))
    raise core.MachineryError(op)


def r_apply(obj, op, attr):
    o = op[0]
    try:
        if o == "aget":
            return ("ok", getattr(obj, attr))
        if o == "aset":
            setattr(obj, attr, op[1])
            return ("ok", None)
        if o == "adel":
            delattr(obj, attr)
            return ("ok", None)
        if o == "kget":
            return ("ok", obj[op[1]])
        if o == "kset":
            obj[op[1]] = op[2]
            return ("ok", None)
        if o == "kdel":
            del obj[op[1]]
            return ("ok", None)
        if o == "kin":
            return ("ok", op[1] in obj)
        if o == "items":
            return ("ok", list(obj.items()))
    except core.WatchdogTimeout:
        raise
    except BaseException as e:
        return ("exc", type(e).__name__)
    raise core.MachineryError(op)


def build(kind, state, bare=False):
    obj = (BARE[kind] if bare and kind in BARE else KINDS[kind][0])()
    for k, v in state:
        obj[k] = v
    return obj


def outcome_str(obj):
    try:
        return ("ok", str(obj))
    except core.WatchdogTimeout:
        raise
    except BaseException as e:
        return ("exc", type(e).__name__)


def outcome_eq(a, b):
    try:
        return ("ok", bool(a == b), bool(a != b))
    except core.WatchdogTimeout:
        raise
    except BaseException as e:
        return ("exc", type(e).__name__)


MIXED_KEY = "MyTag"  # keys are stored as given: a mixed-case key is a key of its own
FOREIGN_ALIAS = {"STOPS": "FREEZES", "BGCHANGES": "ANIMATIONS", "NOTES": "NOTES2"}


def ops_for(std, alias, other, values, extra_key=None, mixed=None):
    keys = [std] + ([alias] if alias else []) + ([extra_key] if extra_key else []) + [other, mixed or MIXED_KEY]
    ops = [("aget",), ("adel",)] + [("aset", v) for v in values]
    for k in keys:
        ops += [("kget", k), ("kdel", k), ("kin", k)] + [("kset", k, v) for v in values]
    ops.append(("items",))
    return ops


def initial_states(std, alias, other, extra_key=None):
    out = [()]
    if extra_key:
        # a legacy alias of another class is an ordinary key here: it must be ignored by the attribute
        out.append(((extra_key, "q"),))
        out.append(((extra_key, "q"), (std, "p")))
    out.append(((std, "p"),))
    if alias:
        out.append(((alias, "q"),))
        out.append(((std, "p"), (alias, "q")))
        out.append(((alias, "q"), (std, "p")))
    out.append(((other, "o"), (std, "")))
    return out


def explore_property(acc, kind, attr, std, alias, values, layer, bare_start=False, mixed=None):
    other = KINDS[kind][1]
    extra_key = FOREIGN_ALIAS.get(std) if not alias else None
    if extra_key == other:
        extra_key = None
    ops = ops_for(std, alias, other, values, extra_key, mixed)
    seen = set()
    frontier = []
    for st in initial_states(std, alias, other, extra_key):
        if st not in seen:
            seen.add(st)
            frontier.append((st, []))
    if bare_start and kind in BARE:
        frontier.append(((), ["<bare constructor>"]))
    while frontier:
        nxt = []
        for state, hist in frontier:
            bare = bool(hist and hist[0] == "<bare constructor>")
            acc.count("states")
            if alias and len(state) >= 2:
                acc.count("nontrivial")
            for op in ops:
                case = {"kind": "property", "object": kind, "attr": attr, "std": std, "alias": alias, "state": [list(i) for i in state], "op": list(op), "bare": bare}
                core.guard_cheap(acc, case)
                fails, new_state = check_transition(kind, attr, std, alias, state, op, bare)
                acc.count("transitions")
                acc.count("evaluations")
                if extra_key and any(k == extra_key for k, _ in state) and op[0] in ("aset", "adel", "aget"):
                    acc.outcome("attribute access with another class's alias key present")
                if any(k == alias for k, _ in state) and not any(k == std for k, _ in state) and op[0] in ("aset", "adel", "aget"):
                    acc.outcome("attribute access through the alias")
                if any(k == alias for k, _ in state) and any(k == std for k, _ in state) and op[0] in ("aset", "adel", "aget"):
                    acc.outcome("attribute access with both spellings present")
                for f in fails:
                    acc.violation(f["clause"], case, f["expected"], f["observed"], signature=(f["clause"], kind, op[0]))
                if new_state not in seen:
                    seen.add(new_state)
                    nxt.append((new_state, []))
        frontier = nxt
    acc.layer(layer, fixpoint_reached=True)
    return len(seen)


def tour_property(acc, kind, attr, std, alias, values, layer, mixed=None):
    """
    Transition tour: the same closed state graph, but walked on ONE live object.  Every (state, operation) pair of
    the graph is executed at least once in a single uninterrupted history (untaken operations first, else the
    shortest path through the model to a state that still has some), the model following in lock-step.  State that
    an object could keep outside its mapping (caches, counters, "already serialized" flags) survives here, which the
    per-transition check - a fresh object per transition - cannot see.
    """
    other = KINDS[kind][1]
    extra_key = FOREIGN_ALIAS.get(std) if not alias else None
    if extra_key == other:
        extra_key = None
    ops = ops_for(std, alias, other, values, extra_key, mixed)
    # the model graph reachable from the empty mapping
    succ = {}
    todo = [()]
    while todo:
        st = todo.pop()
        if st in succ:
            continue
        succ[st] = [m_apply(st, op, std, alias)[0] for op in ops]
        todo.extend(n for n in succ[st] if n not in succ)
    untaken = {st: list(range(len(ops))) for st in succ}
    remaining = sum(len(v) for v in untaken.values())
    obj = KINDS[kind][0]()
    cur = ()
    hist = []
    steps = 0

    def step(i):
        nonlocal cur, steps
        op = ops[i]
        new_state, want = m_apply(cur, op, std, alias)
        got = r_apply(obj, op, attr)
        hist.append(list(op))
        steps += 1
        problem = None
        if got != want:
            problem = ("return value / exception differs from the dictionary model", want, got)
        else:
            items = list(obj.items())
            if items != list(new_state):
                problem = ("mapping content or order differs from the model", list(new_state), items)
            else:
                try:
                    view = getattr(obj, attr)
                except core.WatchdogTimeout:
                    raise
                except BaseException as e:
                    view = type(e).__name__
                want_view = dict(new_state).get(resolve(new_state, std, alias))
                if view != want_view:
                    problem = ("attribute does not read the standard key, else the alias, else None", want_view, view)
                elif new_state != cur or steps % 16 == 0:
                    # serialization and equality against an object built directly from the model state
                    fresh = build(kind, new_state)
                    s1, s2 = outcome_str(obj), outcome_str(fresh)
                    if s1 != s2:
                        problem = ("serialization differs from that of an object built directly from the same content", s2, s1)
                    elif outcome_eq(obj, fresh) != ("ok", True, False):
                        problem = ("object does not compare equal to one built directly from the same content", ("ok", True, False), outcome_eq(obj, fresh))
        cur = new_state
        return problem

    problem = None
    while remaining and problem is None:
        core.guard_cheap(acc, {"kind": "tour", "object": kind, "attr": attr, "std": std, "alias": alias, "values": list(values), "history": hist[-40:]})
        if untaken[cur]:
            i = untaken[cur].pop(0)
            remaining -= 1
            problem = step(i)
            continue
        # breadth-first search in the model for the nearest state with untaken operations
        prev = {cur: None}
        queue = [cur]
        target = None
        while queue and target is None:
            nq = []
            for st in queue:
                for i, n in enumerate(succ[st]):
                    if n not in prev:
                        prev[n] = (st, i)
                        if untaken[n]:
                            target = n
                            break
                        nq.append(n)
                if target is not None:
                    break
            queue = nq
        if target is None:
            break  # the rest is not reachable from here (never happens in a strongly connected graph)
        path = []
        st = target
        while prev[st] is not None:
            path.append(prev[st][1])
            st = prev[st][0]
        for i in reversed(path):
            problem = step(i)
            if problem is not None:
                break
    acc.count("tour_steps", steps)
    acc.count("transitions", steps)
    acc.count("evaluations", steps)
    acc.outcome("transition tour on one live object")
    if problem is not None:
        case = {"kind": "tour", "object": kind, "attr": attr, "std": std, "alias": alias, "values": list(values), "history": hist}
        acc.violation("transition tour on one live object: " + problem[0], case, problem[1], problem[2], signature=("tour", problem[0], kind))
    elif remaining:
        raise core.MachineryError(f"transition tour left {remaining} transitions untaken")
    acc.layer(layer + " (tour)", states=len(succ), steps=steps, every_transition_taken=True)


def replay_tour(case):
    """Replays a recorded tour history on a fresh object; returns failures."""
    kind, attr, std, alias = case["object"], case["attr"], case["std"], case["alias"]
    obj = KINDS[kind][0]()
    cur = ()
    for op in case["history"]:
        op = tuple(op)
        new_state, want = m_apply(cur, op, std, alias)
        got = r_apply(obj, op, attr)
        cur = new_state
        if got != want:
            return [{"clause": "transition tour on one live object: return value / exception differs from the dictionary model", "expected": core.jsonable(want), "observed": core.jsonable(got)}]
        if list(obj.items()) != list(cur):
            return [{"clause": "transition tour on one live object: mapping content or order differs from the model", "expected": core.jsonable(list(cur)), "observed": core.jsonable(list(obj.items()))}]
    fresh = build(kind, cur)
    want_view = dict(cur).get(resolve(cur, std, alias))
    try:
        view = getattr(obj, attr)
    except BaseException as e:
        view = type(e).__name__
    if view != want_view:
        return [{"clause": "transition tour on one live object: attribute does not read the standard key, else the alias, else None", "expected": core.jsonable(want_view), "observed": core.jsonable(view)}]
    if outcome_str(obj) != outcome_str(fresh):
        return [{"clause": "transition tour on one live object: serialization differs from that of an object built directly from the same content", "expected": core.jsonable(outcome_str(fresh)), "observed": core.jsonable(outcome_str(obj))}]
    if outcome_eq(obj, fresh) != ("ok", True, False):
        return [{"clause": "transition tour on one live object: object does not compare equal to one built directly from the same content", "expected": "equal", "observed": core.jsonable(outcome_eq(obj, fresh))}]
    return []


def check_transition(kind, attr, std, alias, state, op, bare=False):
    fails = []

    def fail(clause, expected, observed):
        fails.append({"clause": clause, "expected": core.jsonable(expected), "observed": core.jsonable(observed)})

    other = KINDS[kind][1]
    new_state, want = m_apply(state, op, std, alias)
    try:
        obj = build(kind, state, bare)
    except core.WatchdogTimeout:
        raise
    except BaseException as e:
        fail("building the object raised", "object", f"{type(e).__name__}: {e}")
        return fails, new_state
    got = r_apply(obj, op, attr)
    if got != want:
        fail("return value / exception differs from the dictionary model", want, got)
    items = list(obj.items())
    if items != list(new_state):
        fail("mapping content or order after the operation differs from the model (other keys must be unaffected)", list(new_state), items)
        return fails, new_state
    # both views agree in the new state
    try:
        view = getattr(obj, attr)
    except core.WatchdogTimeout:
        raise
    except BaseException as e:
        view = f"{type(e).__name__}"
    want_view = dict(new_state).get(resolve(new_state, std, alias))
    if view != want_view:
        fail("attribute does not read the standard key, else the alias, else None", want_view, view)
    # differential oracle: the object reached by this step vs one built directly from the model state
    fresh = build(kind, new_state)
    eq = outcome_eq(obj, fresh)
    if eq not in (("ok", True, False),):
        fail("object reached by the operation does not compare equal to one built directly from the same content", ("ok", True, False), eq)
    s1, s2 = outcome_str(obj), outcome_str(fresh)
    if s1 != s2:
        fail("serialization differs from that of an object built directly from the same content", s2, s1)
    elif s1[0] == "ok":
        # serialization sees exactly the mapping's content
        tok = M.tokenize(s1[1], False)
        if kind == "SSCChart":
            # NOTEDATA, then every item except the note data in order, then the note data
            # (NOTES, or NOTES2 when that alias is the only one present)
            nk = M.ssc_notes_key(list(new_state))
            want_params = [("NOTEDATA", "")] + [M.param_of(k, v) for k, v in new_state if k != nk] + [M._notes_param(nk, dict(new_state)[nk])]
        else:
            want_params = [M.param_of(k, v) for k, v in new_state]
        if tok[0] != "ok" or tok[1] != want_params:
            fail("serialization does not show exactly the mapping's content", want_params, tok)
    elif kind == "SSCChart" and M.ssc_notes_key(list(new_state)) is not None:
        fail("serializing a chart that has note data raised", "text", s1)
    # serializing is a read: the mapping (content and order) is as before, and the object still equals an
    # unserialized twin
    items2 = list(obj.items())
    if items2 != items:
        fail("serializing changed the mapping's content or order", items, items2)
    else:
        eq2 = outcome_eq(obj, build(kind, new_state))
        if eq2 != ("ok", True, False):
            fail("after being serialized the object no longer equals an unserialized twin", ("ok", True, False), eq2)
    # the mapping is an ordered one: the same pairs inserted in another order are another content
    # (they serialize differently), so they must not compare equal
    if len(new_state) >= 2:
        other_order = build(kind, tuple(reversed(new_state)))
        if outcome_str(other_order) != s1:
            eq3 = outcome_eq(obj, other_order)
            if eq3 != ("ok", False, True):
                fail("objects holding the same pairs in another insertion order (and serializing differently) compare equal", ("ok", False, True), eq3)
    # a different content must not compare equal
    if new_state != state:
        old = build(kind, state)
        if outcome_eq(obj, old) == ("ok", True, False):
            fail("objects with different content compare equal", "not equal", "equal")
    return fails, new_state


# ---------------------------------------------------------------------------
# SM chart: six fixed fields
# ---------------------------------------------------------------------------

FIELDS = M.SM_FIELDS


SCRATCH_ORDER = (5, 2, 0, 4, 1, 3)  # a non-documented assignment order for charts built from scratch


def smchart_from(fields, how):
    if how == "from_msd":
        return SMChart.from_msd(list(fields))
    if how == "scratch":
        # SMChart() filled by attribute assignment in another order than the documented one
        ch = SMChart()
        for i in SCRATCH_ORDER:
            setattr(ch, FIELDS[i].lower(), fields[i])
        return ch
    ch = SMChart.blank()
    for k, v in zip(FIELDS, fields):
        dict.__setitem__(ch, k, v)
    return ch


def smchart_ops(values):
    ops = []
    for i, f in enumerate(FIELDS):
        ops += [("aget", i), ("adel", i), ("kget", f), ("kdel", f), ("kin", f), ("kget", f.lower()), ("kdel", f.lower()), ("kin", f.lower())]
        for v in values:
            ops += [("aset", i, v), ("kset", f, v), ("kset", f.lower(), v), ("setdefault", f, v)]
    for k in ("TITLE", "Notes2", ""):
        ops += [("kget", k), ("kdel", k), ("kin", k), ("kset", k, "p"), ("setdefault", k, "p"), ("pop", k)]
    ops += [("iter",), ("items",), ("update", {"METER": "9"}), ("update", {"X": "1"}), ("pop", "METER"), ("popitem",), ("len",)]
    return ops


def smchart_apply_real(ch, op):
    o = op[0]
    try:
        if o == "aget":
            return ("ok", getattr(ch, FIELDS[op[1]].lower()))
        if o == "aset":
            setattr(ch, FIELDS[op[1]].lower(), op[2])
            return ("ok", None)
        if o == "adel":
            delattr(ch, FIELDS[op[1]].lower())
            return ("ok", None)
        if o == "kget":
            return ("ok", ch[op[1]])
        if o == "kset":
            ch[op[1]] = op[2]
            return ("ok", None)
        if o == "kdel":
            del ch[op[1]]
            return ("ok", None)
        if o == "kin":
            return ("ok", op[1] in ch)
        if o == "iter":
            return ("ok", list(ch))
        if o == "items":
            return ("ok", list(ch.items()))
        if o == "len":
            return ("ok", len(ch))
        if o == "update":
            ch.update(op[1])
            return ("ok", None)
        if o == "pop":
            return ("ok", ch.pop(op[1]))
        if o == "popitem":
            return ("ok", ch.popitem())
        if o == "setdefault":
            return ("ok", ch.setdefault(op[1], op[2]))
    except core.WatchdogTimeout:
        raise
    except BaseException as e:
        return ("exc", type(e).__name__)
    raise core.MachineryError(op)


def smchart_expect(state, op):
    """
    Returns list of acceptable (new_state, result-predicate) pairs.
    result-predicate: ('ok', value) exact, ('exc',) any exception (refused), ('any',).
    """
    o = op[0]
    st = tuple(state)
    if o == "aget":
        return [(st, ("ok", st[op[1]]))]
    if o == "aset":
        n = list(st)
        n[op[1]] = op[2]
        return [(tuple(n), ("ok", None))]
    if o == "adel":
        return [(st, ("exc",))]
    if o in ("kget", "kset", "kdel", "kin", "setdefault", "pop"):
        k = op[1]
        if k in FIELDS:
            i = FIELDS.index(k)
            if o == "kget":
                return [(st, ("ok", st[i]))]
            if o == "kset":
                n = list(st)
                n[i] = op[2]
                return [(tuple(n), ("ok", None))]
            if o == "kin":
                return [(st, ("ok", True))]
            if o == "setdefault":
                return [(st, ("ok", st[i])), (st, ("exc",))]
            return [(st, ("exc",))]  # kdel, pop: removing is refused
        if k.upper() in FIELDS and k != k.upper():
            # a case variant of a field name: refused, or treated as that field - never a new key
            i = FIELDS.index(k.upper())
            if o == "kget":
                return [(st, ("exc",)), (st, ("ok", st[i]))]
            if o in ("kset", "setdefault"):
                n = list(st)
                n[i] = op[2]
                alts = [(st, ("exc",)), (tuple(n), ("ok", None))]
                if o == "setdefault":
                    alts.append((st, ("ok", st[i])))
                return alts
            if o == "kin":
                return [(st, ("ok", False)), (st, ("ok", True))]
            return [(st, ("exc",))]
        # unrelated key
        if o == "kin":
            return [(st, ("ok", False))]
        return [(st, ("exc",))]
    if o == "iter":
        return [(st, ("ok", list(FIELDS)))]
    if o == "items":
        return [(st, ("ok", list(zip(FIELDS, st))))]
    if o == "len":
        return [(st, ("ok", 6))]
    if o == "update":
        if all(k in FIELDS for k in op[1]):
            n = list(st)
            for k, v in op[1].items():
                n[FIELDS.index(k)] = v
            return [(st, ("exc",)), (tuple(n), ("ok", None))]
        return [(st, ("exc",))]
    if o == "popitem":
        return [(st, ("exc",))]
    raise core.MachineryError(op)


def smchart_state(ch):
    return (list(dict.keys(ch)), [dict.get(ch, k) for k in FIELDS])


def check_smchart_transition(state, op, how):
    fails = []

    def fail(clause, expected, observed):
        fails.append({"clause": clause, "expected": core.jsonable(expected), "observed": core.jsonable(observed)})

    ch = smchart_from(state, how)
    got = smchart_apply_real(ch, op)
    keys, vals = smchart_state(ch)
    if how == "scratch" and sorted(keys) == sorted(FIELDS):
        keys = list(FIELDS)  # the key order of a chart filled from scratch is the caller's; only the key set is fixed
    if keys != list(FIELDS):
        fail("an SM chart no longer exposes exactly its six fixed fields in order (a key was added or removed)", list(FIELDS), keys)
        return fails, tuple(state)
    alts = smchart_expect(state, op)
    if how == "scratch" and op[0] in ("iter", "items") and got[0] == "ok":
        # order of iteration follows the caller's assignment order for a chart built from scratch
        want_any = alts[0][1][1]
        if sorted(map(repr, got[1])) == sorted(map(repr, want_any)):
            got = ("ok", want_any)
    chosen = None
    for new_state, pred in alts:
        if tuple(vals) != tuple(new_state):
            continue
        if pred[0] == "ok" and got == pred:
            chosen = new_state
        elif pred[0] == "exc" and got[0] == "exc":
            chosen = new_state
        if chosen is not None:
            break
    if chosen is None:
        fail("operation on an SM chart is neither carried out as documented nor refused with the chart unchanged",
             [[list(s), list(p)] for s, p in alts], [vals, list(got)])
        return fails, tuple(vals) if len(vals) == 6 else tuple(state)
    # equality sees the six fields: a changed field makes the charts unequal
    if tuple(chosen) != tuple(state):
        old = smchart_from(state, how)
        if (ch == old) or not (ch != old):
            fail("SM charts with different fields compare equal", "not equal", "equal")
    # both views agree for every field
    for i, f in enumerate(FIELDS):
        a = getattr(ch, f.lower())
        try:
            k = ch[f]
        except Exception as e:
            k = type(e).__name__
        if a != chosen[i] or k != chosen[i]:
            fail("attribute and key view of an SM chart field disagree", chosen[i], [a, k])
            break
    return fails, chosen


def check_smchart_state(state, how):
    """str(chart) shows the six fields at the documented component positions."""
    ch = smchart_from(state, how)
    try:
        text = str(ch)
        params = [tuple(p.components) for p in parse_msd(string=text)]
    except core.WatchdogTimeout:
        raise
    except BaseException as e:
        return [{"clause": "serializing an SM chart raised", "expected": "text", "observed": f"{type(e).__name__}: {e}"}]
    if len(params) != 1 or params[0][0] != "NOTES" or [c.strip() for c in params[0][1:7]] != [s.strip() for s in state]:
        return [{"clause": "serialized SM chart does not show the fields in the documented order", "expected": list(state), "observed": core.jsonable(params)}]
    other = smchart_from(state, "from_msd" if how != "from_msd" else "scratch")
    # '!=' is only demanded between charts with the same key order: SMChart overrides __eq__ but inherits
    # OrderedDict's order-sensitive __ne__, which is outside what the property states (observation in DESIGN)
    same_order = list(dict.keys(ch)) == list(dict.keys(other))
    if not (ch == other) or (same_order and (ch != other)):
        return [{"clause": "SM charts with the same six fields do not compare equal", "expected": "equal", "observed": "not equal"}]
    # ... and a chart that differs in one field only - by letter case, by one more character - is a different chart
    for i, v in enumerate(state):
        for v2 in {v.swapcase(), v + "x", v[:-1]} - {v}:
            if v2 != v2.strip():
                continue
            near = smchart_from(tuple(state[:i]) + (v2,) + tuple(state[i + 1:]), how)
            if ch == near:
                return [{"clause": "SM charts that differ in one field compare equal", "expected": "not equal", "observed": {"field": FIELDS[i], "values": [v, v2]}}]
    return []


def explore_smchart(acc, values, how, start):
    ops = smchart_ops(values)
    seen = {tuple(start)}
    frontier = [tuple(start)]
    layer = f"SM chart ({how})"
    while frontier:
        nxt = []
        for state in frontier:
            acc.count("states")
            acc.count("nontrivial")
            for f in check_smchart_state(state, how):
                acc.violation(f["clause"], {"kind": "smchart_state", "state": list(state), "how": how}, f["expected"], f["observed"], signature=(f["clause"],))
            for op in ops:
                case = {"kind": "smchart", "state": list(state), "op": core.jsonable(list(op)), "how": how}
                core.guard_cheap(acc, case)
                fails, new_state = check_smchart_transition(state, op, how)
                acc.count("transitions")
                acc.count("evaluations")
                if op[0] in ("kset", "setdefault") and op[1] not in FIELDS:
                    acc.outcome("attempt to add a key to an SM chart")
                if op[0] in ("kdel", "adel", "pop", "popitem"):
                    acc.outcome("attempt to remove a key from an SM chart")
                for f in fails:
                    acc.violation(f["clause"], case, f["expected"], f["observed"], signature=(f["clause"], op[0]))
                if new_state not in seen:
                    seen.add(new_state)
                    nxt.append(new_state)
        frontier = nxt
    acc.layer(layer, states=len(seen), fixpoint_reached=True)
    acc.sample(layer, {"start": list(start), "values": list(values), "operations": len(ops), "states": len(seen)})


def check_case(case):
    if case["kind"] == "property":
        state = tuple(tuple(i) for i in case["state"])
        return check_transition(case["object"], case["attr"], case["std"], case["alias"], state, tuple(case["op"]), case.get("bare", False))[0]
    if case["kind"] == "tour":
        return replay_tour(case)
    if case["kind"] == "smchart":
        op = case["op"]
        op = tuple(op)
        return check_smchart_transition(tuple(case["state"]), op, case["how"])[0]
    if case["kind"] == "smchart_state":
        return check_smchart_state(tuple(case["state"]), case["how"])
    raise core.MachineryError("unknown case")


def explore_shard(acc, shard):
    kind = shard[0]
    if kind == "prop":
        _, okind, attr, std, alias, values = shard[:6]
        mixed = shard[6] if len(shard) > 6 else None
        layer = f"{okind}.{attr}" if alias else f"{okind} non-aliased properties"
        n = explore_property(acc, okind, attr, std, alias, values, layer, bare_start=bool(alias), mixed=mixed)
        if mixed:
            acc.outcome("stored key that looks structural (NOTEDATA in a chart)")
        if alias:
            acc.sample(layer, {"object": okind, "attr": attr, "std": std, "alias": alias, "values": list(values), "model_states": n})
        acc.count("properties_explored")
    elif kind == "tour":
        _, okind, attr, std, alias, values = shard
        tour_property(acc, okind, attr, std, alias, values, f"{okind}.{attr}")
    elif kind == "smchart":
        _, values, how, start = shard
        explore_smchart(acc, values, how, start)


def explore(run):
    shards = []
    values = ("p", "q", "")
    values2 = ("x:y", "0", "a\r\nb")
    # lengths: a one-line list of 11 entries (about 150 characters), a value longer than 8192 characters
    values3 = (X.comma_list(11), "k" * 9000, "")
    classes = {"SMSimfile": SMSimfile, "SSCSimfile": SSCSimfile, "SSCChart": SSCChart}
    for okind, cls in classes.items():
        for attr, std in sorted(known_properties(cls).items()):
            alias = ALIASED[okind].get(attr, (std, None))[1]
            std = ALIASED[okind].get(attr, (std, None))[0]
            if std == KINDS[okind][1]:
                continue  # the unrelated key itself is covered as 'other' everywhere
            shards.append(("prop", okind, attr, std, alias, values))
            if run.thorough() or alias:
                shards.append(("prop", okind, attr, std, alias, values2))
            if (okind, attr) in (("SMSimfile", "stops"), ("SSCSimfile", "bpms"), ("SSCChart", "credit")) or (run.thorough() and alias):
                shards.append(("prop", okind, attr, std, alias, values3 if okind == "SSCChart" else (values3[0], X.comma_list(90), "")))
            # transition tour on one live object: every aliased property, and (quick) one plain property per class
            if alias or run.thorough() or attr in ("title", "stepstype", "credit"):
                shards.append(("tour", okind, attr, std, alias, values))
    # a chart whose other parameters exceed 8192 characters, note data present (two values keep the graph small)
    shards.append(("prop", "SSCChart", "notes", "NOTES", "NOTES2", ("k" * 9000, "")))
    # an unrelated key that looks structural: a stored key NOTEDATA in an SSC chart is a key like any other
    shards.append(("prop", "SSCChart", "credit", "CREDIT", None, values, "NOTEDATA"))
    shards.append(("prop", "SSCChart", "notes", "NOTES", "NOTES2", ("p", ""), "NOTEDATA"))
    svals = ("p", "") if not run.thorough() else ("p", "q", "")
    shards.append(("smchart", svals, "from_msd", ["a", "b", "c", "d", "e", "f"]))
    shards.append(("smchart", ("p", ""), "blank", [dict.get(SMChart.blank(), k) for k in FIELDS]))
    shards.append(("smchart", ("p", ""), "scratch", ["a", "b", "c", "d", "e", "f"]))
    k = run.seed % len(shards)
    shards = shards[k:] + shards[:k]
    run.merge(core.pmap(explore_shard, shards, run.seed))
    acc = run.acc
    run.rule = (
        "closed state graphs explored to a fixpoint: for every known property of SMSimfile, SSCSimfile and SSCChart (aliased: stops/FREEZES, bgchanges/ANIMATIONS, notes/NOTES2) "
        "the states are all ordered partial assignments of {standard key, alias key, one unrelated key} to three values, the operations attribute get/set/del, key get/set/del/in on each key, items(); "
        "every (state, operation) pair is executed on a real object built for that state and compared with the dictionary model (result or exception class, ordered items, attribute view, equality and serialization against an object built directly from the model state). "
        "Transition tour: for every aliased property (thorough: every property) the same graph is walked once more on ONE live object so that every (state, operation) pair occurs in a single uninterrupted history. "
        "SM chart: all states over {values}^6 reachable from blank() and a from_msd chart under attribute/key/lower-case-key/unrelated-key get/set/del/in, setdefault, update, pop, popitem, iteration. "
        "Non-trivial = a state holding at least two of the three keys (properties) / every SM chart state."
    )
    run.assumptions = [
        "for a case variant of an SM chart field name the oracle accepts 'refused' or 'assigned to the field' (no key may be added)",
        "clear() and move_to_end() are outside the statement's operation alphabet and not exercised",
    ]
    core.require(acc.outcomes["attribute access through the alias"] > 0, "alias path not exercised")
    core.require(acc.outcomes["transition tour on one live object"] > 0, "no transition tour")
    core.require(acc.outcomes["stored key that looks structural (NOTEDATA in a chart)"] > 0, "NOTEDATA never stored as a key")
    core.require(acc.outcomes["attribute access with both spellings present"] > 0, "both-spellings states not reached")
    core.require(acc.outcomes["attribute access with another class's alias key present"] > 0, "foreign alias key never present")
    core.require(acc.outcomes["attempt to add a key to an SM chart"] > 0, "no add attempt")
    core.require(acc.outcomes["attempt to remove a key from an SM chart"] > 0, "no remove attempt")
    return run.finish(
        states=acc.c["states"],
        transitions=acc.c["transitions"],
        evaluations=acc.c["evaluations"],
        distinct_nontrivial=acc.c["nontrivial"],
    )
