"""
C06 - a failed or cancelled mutate never damages the input file.

Fault enumeration on the real save path, through the filesystem seam:
  body faults          an exception of each class raised at every position of an edit script;
  serialization faults a non-string value / an SSC chart without note data at several positions;
  encoding faults      an unencodable character for each detected encoding at several positions;
  I/O faults           a fault-free run records the numbered call sequence (open, write, flush,
                       close); then the run is repeated with a failure injected at call k, for every k;
x backup / output configurations x both formats x MemoryFS and the native filesystem.
"""
import copy
import itertools

from .. import core
from . import mutate_common as MU
from . import text_common as X

import simfile  # noqa: E402
from simfile import CancelMutation  # noqa: E402

LEVEL = "fault_enumeration"


class UserError(Exception):
    pass


class MyCancel(CancelMutation):
    pass


BODY_EXCEPTIONS = {
    "ValueError": ValueError, "KeyError": KeyError, "UserError": UserError, "KeyboardInterrupt": KeyboardInterrupt,
    "SystemExit": SystemExit, "GeneratorExit": GeneratorExit, "CancelMutation": CancelMutation, "MyCancel": MyCancel,
    # classes the library itself catches or raises while loading and saving: raised by the body they are the body's
    "UnicodeEncodeError": UnicodeEncodeError, "UnicodeDecodeError": UnicodeDecodeError, "FileNotFoundError": FileNotFoundError,
}
BODY_FACTORIES = {
    "UnicodeEncodeError": lambda: UnicodeEncodeError("ascii", "\xe9", 0, 1, "ordinal not in range(128)"),
    "UnicodeDecodeError": lambda: UnicodeDecodeError("utf-8", b"\xff", 0, 1, "invalid start byte"),
    "FileNotFoundError": lambda: FileNotFoundError(2, "No such file or directory", "elsewhere.sm"),
}
UNENCODABLE = {"utf-8": "\ud800", "cp1252": "猫", "cp932": "한", "cp949": "\U0001f600", "ascii": "é"}
def content_for(enc):
    """TITLE payload bytes for which the default list detects exactly this encoding (found by brute force)."""
    i = MU.ENCODINGS.index(enc)
    best = None
    for sig, payload in sorted(MU.representatives().items()):
        if sig[i] and not any(sig[:i]) and (enc != "utf-8" or len(payload) > 1 or payload[0] > 127):
            if best is None or len(payload) > len(best):
                best = payload
    if enc == "utf-8":
        best = "é猫".encode("utf-8")
    assert best is not None and MU.expected_encoding(MU.file_bytes(".sm", best, False), MU.ENCODINGS) == enc, enc
    return best


class Injected(OSError):
    pass


def run(world, ext, data, output, backup, script, body_exc_at=None, body_exc=None, final_op=None, fail_at=None, record=False, stale=False, errors=None):
    """
    One mutate run under the seam.  Returns dict with: result ('ok' | ('exc', obj)), before/after
    snapshots, calls (numbered log), entry/exit observations.
    """
    files = {"in" + ext: data, "other.txt": b"unrelated\n"}
    if stale:
        # files left under the output / backup names by an earlier run
        files["out" + ext] = b"#TITLE:stale output;\n"
        files["bak" + ext] = b"#TITLE:stale backup;\n#GENRE:g;\n"
    world.reset(files)
    fs = world.fs
    inp = world.path("in" + ext)
    # output: False (save in place) | True (another name) | "same" (the input's own name given as output name)
    #         | "respelled" (the input's name in another spelling)
    if output == "same":
        out = inp
    elif output == "respelled":
        out = world.base + "/./in" + ext
    else:
        out = world.path("out" + ext) if output else None
    bak = world.path("bak" + ext) if backup else None
    before = world.snapshot()
    fs.calls = []
    fs.fail_at = fail_at
    injected = Injected(5, "injected I/O fault") if fail_at is not None else None
    fs.fail_exc = injected
    fs.counting = True
    state = {}
    raised = None
    try:
        extra_kw = {} if errors is None else {"errors": errors}  # keyword arguments are passed on to the filesystem's open()
        with simfile.mutate(inp, output_filename=out, backup_filename=bak, filesystem=fs, **extra_kw) as sf:
            state["entry"] = MU.canon_obs(sf)
            enc = MU.expected_encoding(data, MU.ENCODINGS)
            for i, op in enumerate(script):
                if body_exc_at == i:
                    raised = body_exc()
                    raise raised
                MU.apply_edit(sf, op, enc)
            if body_exc_at == len(script):
                raised = body_exc()
                raise raised
            if final_op is not None:
                final_op(sf)
        result = ("ok",)
    except core.WatchdogTimeout:
        raise
    except BaseException as e:
        result = ("exc", e)
    finally:
        fs.counting = False
        fs.fail_at = None
    after = world.snapshot()
    return {"result": result, "before": before, "after": after, "calls": list(fs.calls), "entry": state.get("entry"), "raised": raised, "injected": injected, "data": data, "ext": ext, "backup": backup, "output": output, "native": world.which == "nat"}


def fails_body(r, exc_name):
    fails = []
    if r["after"] != r["before"]:
        fails.append({"clause": "the body raised, yet something on the filesystem was created or modified", "expected": "unchanged filesystem", "observed": sorted(k for k in set(r["after"]) | set(r["before"]) if r["after"].get(k) != r["before"].get(k))})
    if issubclass(BODY_EXCEPTIONS[exc_name], CancelMutation):
        if r["result"] != ("ok",):
            fails.append({"clause": "CancelMutation (or a subclass) raised in the body is not swallowed", "expected": "with-block completes", "observed": repr(r["result"][1])})
    else:
        if r["result"][0] != "exc" or r["result"][1] is not r["raised"]:
            fails.append({"clause": "an exception raised in the body does not propagate unchanged", "expected": exc_name, "observed": "completed" if r["result"] == ("ok",) else repr(r["result"][1])})
    return fails


def fails_save_failure(r, what):
    """Saving failed because of the simfile's content: the input must hold its original bytes."""
    fails = []
    if r["result"][0] != "exc":
        fails.append({"clause": f"saving a simfile that {what} did not fail", "expected": "exception", "observed": "completed"})
        return fails
    if r["after"].get("in" + r["ext"]) != r["data"]:
        fails.append({"clause": f"saving failed because the simfile {what}, and the input file no longer holds its original bytes", "expected": r["data"][:60], "observed": r["after"].get("in" + r["ext"], b"<missing>")[:60]})
    extra = set(r["after"]) - set(r["before"]) - {"bak" + r["ext"], "out" + r["ext"]}
    if extra or r["after"].get("other.txt") != r["before"].get("other.txt"):
        fails.append({"clause": "a failed save touched an unrelated path", "expected": "only output/backup", "observed": sorted(extra)})
    fails += backup_clause(r)
    return fails


def backup_clause(r):
    """If the backup was requested and exists, it must be complete and parse to the simfile at block entry."""
    fails = []
    bname = "bak" + r["ext"]
    if r["backup"] and bname in r["after"] and r["entry"] is not None:
        # was its writer closed without a fault?
        closed_ok = True
        if r["calls"]:
            closes = [i for i, (k, d) in enumerate(r["calls"]) if k == "close" and bname in d]
            closed_ok = bool(closes) and not (r["injected"] is not None and r["result"][0] == "exc" and r["result"][1] is r["injected"] and closes and closes[-1] == len(r["calls"]) - 1)
            opened = [i for i, (k, d) in enumerate(r["calls"]) if k == "open" and bname in d and "w" in d.split()[-1]]
            if not opened or not closes:
                closed_ok = False
        if closed_ok:
            enc = MU.expected_encoding(r["data"], MU.ENCODINGS)
            try:
                got = MU.canon_obs(MU.parse_as(r["ext"], r["after"][bname], enc, r["native"]))
                if got != r["entry"]:
                    fails.append({"clause": "a backup that has been written does not parse to the original simfile", "expected": r["entry"], "observed": got})
            except core.WatchdogTimeout:
                raise
            except BaseException as e:
                fails.append({"clause": "a backup that has been written is not complete (does not decode / parse)", "expected": "original simfile", "observed": f"{type(e).__name__}: {e}"})
    return fails


def fails_io(r, k):
    fails = []
    kind, detail = r["calls"][k] if k < len(r["calls"]) else ("?", "?")
    iname = "in" + r["ext"]
    if r["result"][0] != "exc" or r["result"][1] is not r["injected"]:
        fails.append({"clause": "an injected I/O failure does not reach the caller unchanged", "expected": "the injected OSError", "observed": "completed" if r["result"] == ("ok",) else repr(r["result"][1]), "call": [k, kind, detail]})
    # has the input path been successfully opened for writing before the fault?
    opened_w = any(kk == "open" and d.startswith(iname + " ") and "w" in d.split()[-1] for kk, d in r["calls"][:k])
    if (kind == "open" or not opened_w) and r["after"].get(iname) != r["data"]:
        fails.append({"clause": "a file could not be opened for writing (or the failure came before the input was opened for writing), yet the input file lost its original bytes", "expected": r["data"][:60], "observed": r["after"].get(iname, b"<missing>")[:60], "call": [k, kind, detail]})
    # once the input/output may have been damaged, a requested backup must already be complete
    target = ("out" if r["output"] is True else "in") + r["ext"]
    target_opened = any(kk == "open" and d.startswith(target + " ") and "w" in d.split()[-1] for kk, d in r["calls"][: k + 1])
    bname = "bak" + r["ext"]
    if r["backup"] and target_opened and r["entry"] is not None:
        ok = False
        if bname in r["after"]:
            try:
                enc = MU.expected_encoding(r["data"], MU.ENCODINGS)
                ok = MU.canon_obs(MU.parse_as(r["ext"], r["after"][bname], enc, r["native"])) == r["entry"]
            except Exception:
                ok = False
        if not ok:
            fails.append({"clause": "the output was opened for writing before a requested backup was completely written", "expected": "complete backup of the original", "observed": r["after"].get(bname, b"<missing>")[:60], "call": [k, kind, detail]})
    fails += backup_clause(r)
    extra = set(r["after"]) - set(r["before"]) - {bname, "out" + r["ext"]}
    if extra or r["after"].get("other.txt") != r["before"].get("other.txt"):
        fails.append({"clause": "a failed save touched an unrelated path", "expected": "only output/backup", "observed": sorted(extra)})
    return fails


def serialization_faults(ext):
    """name -> operation that makes the simfile unserializable"""
    def nonstring_first(sf):
        items = list(sf.items())
        sf.clear()
        sf["AAA"] = 5
        for k, v in items:
            sf[k] = v

    def nonstring_middle(sf):
        sf["ARTIST"] = 5

    def nonstring_last(sf):
        sf["ZZZ"] = 5

    out = {"non-string first property": nonstring_first, "non-string middle property": nonstring_middle, "non-string last property": nonstring_last}
    if ext == ".ssc":
        def chart_without_notes_last(sf):
            ch = MU.SSCChart()
            ch["STEPSTYPE"] = "x"
            sf.charts.append(ch)

        def chart_without_notes_first(sf):
            ch = MU.SSCChart()
            ch["STEPSTYPE"] = "x"
            sf.charts.insert(0, ch)

        out["SSC chart without note data (last)"] = chart_without_notes_last
        out["SSC chart without note data (first)"] = chart_without_notes_first
    return out


def unencodable_chars(enc):
    """
    Characters of different classes that `enc` cannot encode: a letter of another script, the Unicode line and
    paragraph separators and NEL (line boundaries for str.splitlines, ordinary characters for the file format),
    a lone surrogate.
    """
    out = []
    for ch in (UNENCODABLE[enc], "\u2028", "\u2029", "\x85", "\ud800"):
        try:
            ch.encode(enc)
        except UnicodeEncodeError:
            if ch not in out:
                out.append(ch)
    return out


def encoding_faults(enc):
    out = {}
    for bad in unencodable_chars(enc):
        for name, fn in _encoding_faults_for(bad).items():
            out[f"{name}, U+{ord(bad):04X}"] = fn
    return out


def _encoding_faults_for(bad):
    def first(sf):
        k = next(iter(sf))
        sf[k] = "x" + bad

    def middle(sf):
        sf["ARTIST"] = bad + "y"

    def last(sf):
        sf["ZZZ"] = "z" + bad

    def chart(sf):
        ch = (MU.SSCChart if isinstance(sf, MU.SSCSimfile) else MU.SMChart).blank()
        ch.description = bad
        sf.charts.append(ch)

    return {"first parameter": first, "middle parameter": middle, "last parameter": last, "appended chart": chart}


_WORLDS = {}


def world(which):
    if which not in _WORLDS:
        _WORLDS[which] = MU.World(which)
    return _WORLDS[which]


def close_worlds():
    for w in _WORLDS.values():
        w.close()
    _WORLDS.clear()


def fails_after_failure(w, ext, enc, with_chart):
    """
    History clause: a save that failed must not poison the next one.  Right after a failed mutate a fresh file is
    mutated without any fault, with a backup and an output name; the backup must parse to that file's simfile at
    block entry and the output to the simfile at block exit.
    """
    data = MU.file_bytes(ext, content_for(enc), with_chart, unique=True)
    r = run(w, ext, data, True, True, ["title_ascii"], record=True)
    fails = []
    if r["result"] != ("ok",):
        fails.append({"clause": "a fault-free mutate right after a failed one raised", "expected": "saved", "observed": repr(r["result"][1])})
        return fails
    try:
        bak = MU.canon_obs(MU.parse_as(ext, r["after"]["bak" + ext], enc, r["native"]))
        out = MU.canon_obs(MU.parse_as(ext, r["after"]["out" + ext], enc, r["native"]))
        if bak != r["entry"]:
            fails.append({"clause": "after a failed save, the next mutate's backup does not parse to its own original simfile", "expected": r["entry"], "observed": bak})
        want_exit = copy.deepcopy(r["entry"])
        want_exit["items"] = [(k, "New Title" if k == "TITLE" else v) for k, v in want_exit["items"]]
        if out != want_exit:
            fails.append({"clause": "after a failed save, the next mutate's output does not parse to its own edited simfile", "expected": want_exit, "observed": out})
    except core.WatchdogTimeout:
        raise
    except BaseException as e:
        fails.append({"clause": "after a failed save, the next mutate's files do not decode / parse", "expected": "simfiles", "observed": f"{type(e).__name__}: {e}"})
    return fails


def do_case(case):
    w = world(case["fs"])
    ext, enc = case["ext"], case["enc"]
    data = MU.file_bytes(ext, content_for(enc), case["with_chart"], key_only=case.get("key_only", False), unique=True, variant=case.get("variant"))
    script = case.get("script", [])
    kind = case["kind"]
    st = case.get("stale", False)
    if kind == "body":
        r = run(w, ext, data, case["output"], case["backup"], script, body_exc_at=case["at"], body_exc=BODY_FACTORIES.get(case["exc"], BODY_EXCEPTIONS[case["exc"]]), stale=st)
        return fails_body(r, case["exc"]), r
    if kind == "serialization":
        r = run(w, ext, data, case["output"], case["backup"], script, final_op=serialization_faults(ext)[case["fault"]], stale=st)
        return fails_save_failure(r, "cannot be serialized") + fails_after_failure(w, ext, enc, case["with_chart"]), r
    if kind == "encoding":
        r = run(w, ext, data, case["output"], case["backup"], script, final_op=encoding_faults(enc)[case["fault"]], stale=st, errors=case.get("errors"))
        return fails_save_failure(r, "cannot be encoded in the detected encoding") + fails_after_failure(w, ext, enc, case["with_chart"]), r
    if kind == "io":
        r = run(w, ext, data, case["output"], case["backup"], script, fail_at=case["k"], stale=st)
        return fails_io(r, case["k"]), r
    if kind == "faultfree":
        r = run(w, ext, data, case["output"], case["backup"], script, stale=st)
        fails = []
        if r["result"] != ("ok",):
            fails.append({"clause": "fault-free mutate raised", "expected": "saved", "observed": repr(r["result"][1])})
        return fails, r
    raise core.MachineryError(kind)


def check_case(case):
    try:
        return [core.jsonable(f) for f in do_case(case)[0]]
    finally:
        close_worlds()


LAYOUTS = ((False, None), (True, None), (True, "crlf"))


def explore_big(acc, shard):
    """Large files (about 70 KB and 1.1 MB): a reduced fault enumeration, the clauses are the same."""
    _, fsname, ext, enc, variant = shard
    layer = f"big files, {fsname} {ext} {enc} {variant}"
    try:
        case = None
        for output, backup in ((False, False), (False, True), (True, True)):
            base = {"fs": fsname, "ext": ext, "enc": enc, "with_chart": True, "key_only": False, "output": output, "backup": backup, "variant": variant, "stale": False}
            for exc in ("ValueError", "CancelMutation"):
                for script, at in (([], 0), (["title_ascii"], 1)):
                    case = dict(base, kind="body", script=script, at=at, exc=exc)
                    core.guard(acc, case)
                    fails, _ = do_case(case)
                    acc.count("evaluations")
                    acc.count("nontrivial")
                    for f in fails:
                        acc.violation(f["clause"], case, f.get("expected"), f.get("observed"), signature=(f["clause"], "big"))
            for fault in [k for k in encoding_faults(enc) if k.startswith("last parameter") or k.startswith("appended chart")][:4]:
                case = dict(base, kind="encoding", script=[], fault=fault)
                core.guard(acc, case)
                fails, _ = do_case(case)
                acc.count("evaluations")
                acc.count("nontrivial")
                for f in fails:
                    acc.violation(f["clause"], case, f.get("expected"), f.get("observed"), signature=(f["clause"], "big"))
            case0 = dict(base, kind="faultfree", script=["title_ascii"])
            core.guard(acc, case0)
            fails, r0 = do_case(case0)
            for f in fails:
                acc.violation(f["clause"], case0, f.get("expected"), f.get("observed"), signature=(f["clause"], "big"))
            for k in range(len(r0["calls"])):
                case = dict(base, kind="io", script=["title_ascii"], k=k)
                core.guard(acc, case)
                fails, r = do_case(case)
                acc.count("evaluations")
                acc.count("nontrivial")
                acc.count("fault_points")
                for f in fails:
                    acc.violation(f["clause"], case, f.get("expected"), f.get("observed"), signature=(f["clause"], "big"))
            acc.count("states")
            acc.count("transitions")
        acc.outcome("file larger than 65536 characters" if variant == "big70k" else "file larger than one MiB")
        acc.sample(layer, {k: v for k, v in case.items()})
    finally:
        close_worlds()


def explore_shard(acc, shard):
    if shard[0] == "big":
        return explore_big(acc, shard)
    _, fsname, ext, enc, maxlen = shard[:5]
    only_layout = shard[5] if len(shard) > 5 else None
    layer = f"{fsname} {ext} {enc}"
    try:
        scripts = [()] + [(e,) for e in MU.EDITS] + [tuple(s) for n in range(2, maxlen + 1) for s in itertools.product(MU.EDITS[:4], repeat=n)]
        case = None
        for li, (with_chart, variant) in enumerate(LAYOUTS):
            if only_layout is not None and li != only_layout:
                continue
            if variant == "crlf" and fsname != "mem":
                continue
            for output in (False, True, "same", "respelled"):
                for backup, stale in ((False, False), (True, False), (True, True)) if output is not True else ((False, False), (False, True), (True, False), (True, True)):
                    if output in ("same", "respelled"):
                        acc.outcome("output name that denotes the input file")
                    base = {"fs": fsname, "ext": ext, "enc": enc, "with_chart": with_chart, "key_only": with_chart, "output": output, "backup": backup, "variant": variant, "stale": stale}
                    if stale:
                        acc.outcome("output / backup name already taken by an older file")
                    # body faults
                    for script in (scripts if output in (False, True) else scripts[: 1 + len(MU.EDITS)]):
                        for at in range(len(script) + 1):
                            for exc in BODY_EXCEPTIONS:
                                case = dict(base, kind="body", script=list(script), at=at, exc=exc)
                                core.guard_cheap(acc, case)
                                fails, _ = do_case(case)
                                acc.count("evaluations")
                                acc.count("nontrivial")
                                acc.outcome("body fault: " + ("cancel" if "Cancel" in exc else "exception"))
                                for f in fails:
                                    acc.violation(f["clause"], case, f.get("expected"), f.get("observed"), signature=(f["clause"], exc if "propagate" in f["clause"] or "swallowed" in f["clause"] else None))
                    # serialization and encoding faults (after short scripts)
                    for script in scripts[: 1 + len(MU.EDITS)]:
                        for fault in serialization_faults(ext):
                            case = dict(base, kind="serialization", script=list(script), fault=fault)
                            core.guard_cheap(acc, case)
                            fails, _ = do_case(case)
                            acc.count("evaluations")
                            acc.count("nontrivial")
                            acc.outcome("serialization fault")
                            for f in fails:
                                acc.violation(f["clause"], case, f.get("expected"), f.get("observed"), signature=(f["clause"],))
                        for fault in encoding_faults(enc):
                            # for UTF-8 files also with a lenient error handler passed through to open() that does
                            # not cover the character (surrogateescape only maps U+DC80..U+DCFF)
                            for errors in ((None, "surrogateescape") if enc == "utf-8" else (None,)):
                                case = dict(base, kind="encoding", script=list(script), fault=fault, errors=errors)
                                core.guard_cheap(acc, case)
                                fails, _ = do_case(case)
                                acc.count("evaluations")
                                acc.count("nontrivial")
                                acc.outcome("encoding fault")
                                if errors:
                                    acc.outcome("encoding fault with an errors= handler passed on to open()")
                                for f in fails:
                                    acc.violation(f["clause"], case, f.get("expected"), f.get("observed"), signature=(f["clause"],))
                    # I/O faults: every call index of the fault-free run
                    for script in scripts[: 1 + len(MU.EDITS)]:
                        case0 = dict(base, kind="faultfree", script=list(script))
                        fails, r0 = do_case(case0)
                        acc.count("evaluations")
                        for f in fails:
                            acc.violation(f["clause"], case0, f.get("expected"), f.get("observed"), signature=(f["clause"],))
                        n = len(r0["calls"])
                        acc.count("fault_free_runs")
                        acc.count("fault_points", n)
                        for k in range(n):
                            case = dict(base, kind="io", script=list(script), k=k)
                            core.guard_cheap(acc, case)
                            fails, r = do_case(case)
                            acc.count("evaluations")
                            acc.count("nontrivial")
                            acc.outcome("I/O fault at " + r0["calls"][k][0])
                            if r["calls"][: k] != r0["calls"][: k]:
                                raise core.MachineryError("replaying a prefix of the call sequence diverged")
                            for f in fails:
                                acc.violation(f["clause"], case, f.get("expected"), f.get("observed"), signature=(f["clause"], r0["calls"][k][0]))
                    acc.count("states")
                    acc.count("transitions")
        acc.sample(layer, dict(case, call_sequence_of_last_fault_free_run=[list(c) for c in r0["calls"]]))
    finally:
        close_worlds()


def explore(run_):
    shards = []
    maxlen = 3 if run_.thorough() else 2
    for fsname in ("mem", "nat"):
        for ext in (".sm", ".ssc"):
            for enc in MU.ENCODINGS:
                for li in range(len(LAYOUTS)):
                    if LAYOUTS[li][1] == "crlf" and fsname != "mem":
                        continue
                    shards.append(("F", fsname, ext, enc, maxlen if (fsname == "mem" or run_.thorough()) else 1, li))
    for fsname in ("mem", "nat"):
        for ext in (".sm", ".ssc"):
            for enc in (("utf-8", "cp1252", "cp932") if run_.thorough() else ("cp1252",)):
                shards.append(("big", fsname, ext, enc, "big70k"))
            shards.append(("big", fsname, ext, "utf-8", "big1m"))
    k = run_.seed % len(shards)
    shards = shards[k:] + shards[:k]
    run_.merge(core.pmap(explore_shard, shards, run_.seed))
    acc = run_.acc
    run_.extra = {"fault_points_enumerated": int(acc.c["fault_points"]), "fault_free_runs": int(acc.c["fault_free_runs"])}
    run_.rule = (
        f"for {{MemoryFS, native}} x {{.sm, .ssc}} x detected encoding {MU.ENCODINGS} x layout x output name (none, another file, the input's own name, the input's name respelled) x backup name x (names free | already taken by older files): "
        f"body faults = {len(BODY_EXCEPTIONS)} exception classes at every position of every edit script of length <= {maxlen}; "
        "serialization faults = non-string value in the first/middle/last property, SSC chart without note data first/last; "
        "encoding faults = a character the detected encoding lacks in the first/middle/last parameter or an appended chart; "
        "I/O faults = the numbered calls (open, write, flush, close) of a fault-free run, one failure injected at every index k. "
        "Big files (about 70 KB in CP1252, 1.1 MB in UTF-8): body faults, encoding faults in the last parameter / an appended chart, and an I/O fault at every call, with and without backup / output name. "
        "Every enumerated fault point is a distinct non-trivial case."
    )
    run_.assumptions = [
        "faults are injected at call granularity through the filesystem seam (mc/fsseam.py); a failing close still releases the handle",
        "once the input path has been opened for writing its content is allowed to be lost (no atomic replace is claimed); the clauses are the statement's",
    ]
    for what in ("body fault: cancel", "body fault: exception", "serialization fault", "encoding fault", "I/O fault at open", "I/O fault at write", "I/O fault at close"):
        core.require(acc.outcomes[what] > 0, f"never exercised: {what}")
    core.require(acc.outcomes["file larger than 65536 characters"] > 0 and acc.outcomes["file larger than one MiB"] > 0, "no big file")
    core.require(acc.outcomes["encoding fault with an errors= handler passed on to open()"] > 0, "errors= never passed")
    core.require(acc.outcomes["output name that denotes the input file"] > 0, "output name = input never tried")
    core.require(acc.outcomes["output / backup name already taken by an older file"] > 0, "no pre-existing output / backup file")
    return run_.finish(
        states=acc.c["states"],
        transitions=acc.c["transitions"],
        evaluations=acc.c["evaluations"],
        distinct_nontrivial=acc.c["nontrivial"],
    )
