"""
C16 - SM to SSC conversion keeps every property, chart, timing and note.

Shape I x configurations: SM sources are built as a construction tree over optional
property subsets (OFFSET / BPMS / STOPS always present, each in a few well-formed
spellings) x chart lists x simfile templates x chart templates; plus the corpus SM
file and sources with negative timing values (refusal clause).
"""
import copy
import itertools
import os

from .. import core
from ..models import convert as MC
from ..models import msd as M
from . import text_common as X

from simfile.convert import sm_to_ssc  # noqa: E402
from simfile.notes import NoteData  # noqa: E402
from simfile.timing import TimingData  # noqa: E402

SMSimfile, SSCSimfile, SMChart, SSCChart = X.SMSimfile, X.SSCSimfile, X.SMChart, X.SSCChart
LEVEL = "model_checking"

OPTIONAL = [
    ("TITLE", "Song: a;b"), ("DELAYS", "3.000=0.250"), ("WARPS", "8.000=2.000"), ("BGCHANGES", "0.000=bg.png=1.000=0=0=1"),
    ("ANIMATIONS", "1.000=anim"), ("ATTACKS", "TIME=1.0:LEN=2.0:MODS=drunk"), ("DISPLAYBPM", "100:200"),
    ("VERSION", "0.72"), ("LABELS", "0.000=Intro"), ("XUNKNOWN", "u"), ("SUBTITLE", ""), ("KEYONLY", None),
    # empty, blank and key-only values of properties for which the SSC format has a non-empty default
    ("TICKCOUNTS", ""), ("SPEEDS", " "), ("COMBOS", None),
]
MANDATORY = {
    "OFFSET": ("0.000", "-0.125"),
    # ... a BPM of eight integer digits, and a one-line list of 90 changes (about 1200 characters)
    "BPMS": ("0.000=120.000", "0.000=120.000,\n4.000=60.000", "0.000=10000000.000,\n4.000=0.001", X.comma_list(90)),
    "STOPS": ("", "2.000=0.500,\n6.000=0.250", " ", "\n"),
}
CHARTS = {
    "blank": None,
    "meta": ["dance-double", "a:b;c", "Hard", "12", "0.1,0.2", "00000000\n00000000\n00000000\n00000001"],
    "holds": ["dance-single", "", "Easy", "3", "", "2000\n0100\n3000\n0010\n,\n00M0\n0000\n1[3]000\n0000"],
}
CHART_LISTS = [[], ["blank"], ["meta"], ["holds"], ["blank", "meta"], ["holds", "blank"]]
SIM_TEMPLATES = ["none", "empty", "bare", "blank", "edited", "withchart"]
CHART_TEMPLATES = ["none", "empty", "blank", "extra", "emptytiming", "notes2"]  # plus "oddkeys" with two simfile templates


def source_model(opt_idx, mand, chart_list, rotate=0):
    items = [("OFFSET", MANDATORY["OFFSET"][mand[0]]), ("BPMS", MANDATORY["BPMS"][mand[1]]), ("STOPS", MANDATORY["STOPS"][mand[2]])]
    for i in opt_idx:
        items.append(OPTIONAL[i])
    if rotate:
        items = items[rotate % len(items):] + items[: rotate % len(items)]
    blank_fields = [dict.get(SMChart.blank(), k) for k in M.SM_FIELDS]
    charts = [{"fields": list(CHARTS[n] or blank_fields), "extra": None} for n in chart_list]
    return {"type": "sm", "items": items, "charts": charts}


def sim_template(kind):
    if kind == "none":
        return None
    if kind == "empty":
        return SSCSimfile(string="")
    if kind == "bare":
        return SSCSimfile()  # no input at all
    t = SSCSimfile.blank()
    if kind == "edited":
        t["TITLE"] = "tpl"
        t["EXTRA"] = "e"
        t["VERSION"] = "0.81"
    if kind == "withchart":
        c = SSCChart.blank()
        c["DESCRIPTION"] = "template chart"
        t.charts.append(c)
    return t


def chart_template(kind):
    if kind == "none":
        return None
    if kind == "empty":
        return SSCChart()
    if kind == "blank":
        return SSCChart.blank()
    if kind == "partial":
        # lacks some of the six fields: known finding (converted chart does not end with its note data)
        c = SSCChart()
        c["CHARTNAME"] = "c"
        c["NOTES"] = ""
        return c
    c = SSCChart()
    c["CHARTNAME"] = "c"
    c["X"] = "1"
    for k, v in SSCChart.blank().items():
        if k != "NOTES":
            c[k] = v
    c["CREDIT"] = "me"
    if kind == "emptytiming":
        # timing keys that are present but empty: by the split-timing rule such a chart has no timing of its own
        c["STOPS"] = ""
        c["WARPS"] = ""
        c["BPMS"] = ""
    if kind == "oddkeys":
        # keys that resemble structural ones (a chart ends at NOTES / NOTES2 and begins at NOTEDATA - nowhere else)
        for k in X.KEY_VOCABULARY:
            c[k.upper()] = "v " + k
        c["NOTES"] = ""
        return c
    if kind == "notes2":
        # the template spells its (placeholder) note data with the alias key
        c["NOTES2"] = "2222\n2222\n2222\n2222\n"
        return c
    c["NOTES"] = ""
    return c


def timing_obs(td):
    return {
        "bpms": [(e.beat, e.value) for e in td.bpms], "stops": [(e.beat, e.value) for e in td.stops],
        "delays": [(e.beat, e.value) for e in td.delays], "warps": [(e.beat, e.value) for e in td.warps], "offset": td.offset,
    }


def check_conversion(model, st_kind, ct_kind, expect_refusal=False):
    fails = []

    def fail(clause, expected, observed):
        fails.append({"clause": clause, "expected": core.jsonable(expected), "observed": core.jsonable(observed)})

    src = X.build_object(model)
    st, ct = sim_template(st_kind), chart_template(ct_kind)
    before = (X.observe(src), X.observe(st) if st is not None else None, list(ct.items()) if ct is not None else None)
    kwargs = {}
    if st is not None:
        kwargs["simfile_template"] = st
    if ct is not None:
        kwargs["chart_template"] = ct
    try:
        res = sm_to_ssc(src, **kwargs)
        out = ("ok", res)
    except core.WatchdogTimeout:
        raise
    except BaseException as e:
        out = ("exc", type(e).__name__, str(e)[:100])
    # the model's expectation
    tpl = st if st is not None else SSCSimfile.blank()
    ctpl = ct if ct is not None else SSCChart.blank()
    tobs = X.observe(tpl)
    try:
        want_items, want_charts = MC.sm_to_ssc(
            model["items"], [c["fields"] for c in model["charts"]], tobs["items"], [c["items"] for c in tobs["charts"]], list(ctpl.items())
        )
        want = ("ok", want_items, want_charts)
    except MC.Raises as r:
        want = ("exc", r.kind)
    if want[0] == "exc":
        if out[0] != "exc" or out[1] != want[1]:
            fail("a source with a negative BPM or stop is not refused with NotImplementedError", want, out[:2] if out[0] == "exc" else "converted")
        return fails
    if out[0] != "ok":
        fail("sm_to_ssc raised on a convertible source", "SSCSimfile", out)
        return fails
    if type(res) is not SSCSimfile:
        fail("result is not an SSCSimfile", "SSCSimfile", type(res).__name__)
        return fails
    got = X.observe(res)
    if dict(got["items"]) != dict(want_items) or len(got["items"]) != len(want_items):
        src_keys = {k for k, _ in model["items"]}
        bad = {k: (dict(got["items"]).get(k, "<absent>"), dict(want_items).get(k, "<absent>")) for k in set(dict(got["items"])) | set(dict(want_items)) if dict(got["items"]).get(k, "<absent>") != dict(want_items).get(k, "<absent>")}
        fail("result properties are not exactly: every source property with the source's value, every other key from the template", {k: v[1] for k, v in bad.items()}, {k: v[0] for k, v in bad.items()})
    if len(got["charts"]) != len(want_charts):
        fail("number of charts differs", len(want_charts), len(got["charts"]))
        return fails
    for i, (gc, wc) in enumerate(zip(got["charts"], want_charts)):
        if dict(gc["items"]) != dict(wc) or len(gc["items"]) != len(wc):
            fail("a chart's properties are not exactly the source's six fields plus the chart template's other keys", wc, gc["items"])
            break
    # timing and notes through the library's own readers
    try:
        tsrc = timing_obs(TimingData(src))
        if timing_obs(TimingData(res)) != tsrc:
            fail("TimingData(result) differs from TimingData(source)", tsrc, timing_obs(TimingData(res)))
        ntpl = len(tobs["charts"])
        for sc, rc in zip(src.charts, list(res.charts)[ntpl:]):
            if timing_obs(TimingData(res, rc)) != tsrc:
                fail("TimingData(result, chart) differs from TimingData(source)", tsrc, timing_obs(TimingData(res, rc)))
                break
            if list(NoteData(sc)) != list(NoteData(rc)):
                fail("the notes of a converted chart differ from the source chart's", "same notes", "different")
                break
            for k in M.SM_FIELDS:
                if rc.get(k) != dict.get(sc, k):
                    fail("a chart field differs after conversion", dict.get(sc, k), rc.get(k))
    except core.WatchdogTimeout:
        raise
    except Exception as e:
        fail("reading timing/notes of the result raised", "readable", f"{type(e).__name__}: {e}")
    # source and templates unmodified
    after = (X.observe(src), X.observe(st) if st is not None else None, list(ct.items()) if ct is not None else None)
    if after != before:
        fail("the source or a supplied template was modified by the conversion", "unchanged", "changed")
    # no shared mutable objects
    mine = [id(res), id(res.charts)] + [id(c) for c in res.charts]
    theirs = [id(src), id(src.charts)] + [id(c) for c in src.charts]
    if st is not None:
        theirs += [id(st), id(st.charts)] + [id(c) for c in st.charts]
    if ct is not None:
        theirs.append(id(ct))
    if set(mine) & set(theirs):
        fail("the result shares a mutable object with the source or a template", "disjoint", "shared")
    else:
        r2 = res  # mutate the result; nothing else may change
        snapshot = X.observe(copy.deepcopy(res))
        r2["TITLE"] = "mutated"
        r2["ZZZ"] = "1"
        for c in r2.charts:
            c["STEPSTYPE"] = "mutated"
            c["ZZZ"] = "1"
        r2.charts.append(SSCChart.blank())
        after2 = (X.observe(src), X.observe(st) if st is not None else None, list(ct.items()) if ct is not None else None)
        if after2 != before:
            fail("mutating the result changed the source or a template", "unchanged", "changed")
        res = SSCSimfile(string="")  # rebuild the unmutated result for the reload clause
        for k, v in snapshot["items"]:
            res[k] = v
        for c in snapshot["charts"]:
            ch = SSCChart()
            for k, v in c["items"]:
                ch[k] = v
            res.charts.append(ch)
    # serialization loads back as an equal SSC simfile
    try:
        text = str(res)
        back = SSCSimfile(string=text)
        if not (back == res) or X.observe(back) != X.observe(res):
            fail("the result's serialization does not load back as an equal SSC simfile", X.observe(res), X.observe(back))
        if got["items"] and got["items"][0][0] == "VERSION":
            auto = X.simfile.loads(text)
            if type(auto) is not SSCSimfile or not (auto == res):
                fail("simfile.loads of the result's serialization is not the same SSC simfile", "equal SSCSimfile", type(auto).__name__)
    except core.WatchdogTimeout:
        raise
    except Exception as e:
        fail("serializing / reloading the result raised", "equal simfile", f"{type(e).__name__}: {e}")
    return fails


def check_case(case):
    if case["kind"] == "conversion":
        model = source_model(case["optional"], case["mandatory"], case["charts"], case.get("rotate", 0))
        for k, v in case.get("override", {}).items():
            model["items"] = [(kk, v if kk == k else vv) for kk, vv in model["items"]]
            if k not in dict(model["items"]):
                model["items"].append((k, v))
        for old, new in case.get("rename", {}).items():
            model["items"] = [(new if kk == old else kk, vv) for kk, vv in model["items"]]
        for k in case.get("remove", []):
            model["items"] = [(kk, vv) for kk, vv in model["items"] if kk != k]
        return check_conversion(model, case["sim_template"], case["chart_template"])
    if case["kind"] == "vocab":
        tok = case["token"]
        model = {"type": "sm", "items": [("TITLE", tok), ("OFFSET", "0.000"), ("BPMS", "0.000=120.000"), ("STOPS", ""), ("ATTACKS", tok), ("GENRE", tok)],
                 "charts": [{"fields": [tok, tok, tok, tok, tok, "0000\n0000\n0000\n0000"], "extra": None}, {"fields": ["dance-single", "", tok, "1", "", "1000\n0000\n0000\n0000"], "extra": None}]}
        return check_conversion(model, case["sim_template"], case["chart_template"])
    if case["kind"] == "corpus":
        return check_corpus(case["sim_template"], case["chart_template"])
    raise core.MachineryError("unknown case")


def corpus_model():
    path = os.path.join(core.SRC, "testdata", "nekonabe", "nekonabe.sm")
    sf = X.simfile.open(path)
    o = X.observe(sf)
    return {"type": "sm", "items": [tuple(i) for i in o["items"]], "charts": [{"fields": list(c["fields"]), "extra": c["extra"]} for c in o["charts"]]}


def check_corpus(st, ct):
    return check_conversion(corpus_model(), st, ct)


def template_pairs(level):
    if level == "full":
        return [(s, c) for s in SIM_TEMPLATES for c in CHART_TEMPLATES] + [("none", "oddkeys"), ("edited", "oddkeys")]
    return [("none", "none"), ("empty", "empty"), ("blank", "extra"), ("edited", "blank"), ("withchart", "none"), ("empty", "extra"),
            ("blank", "emptytiming"), ("edited", "emptytiming"), ("bare", "notes2"), ("bare", "none"), ("blank", "notes2"), ("none", "oddkeys")]


def explore_shard(acc, shard):
    kind = shard[0]
    if kind == "tree":
        _, first, max_opt, thorough = shard
        layer = "source construction tree"
        n = len(OPTIONAL)

        def visit(opt_idx):
            mands = (list(itertools.product((0, 1), repeat=3)) + [(0, 2, 0), (1, 3, 1), (0, 0, 2), (1, 1, 3)]) if len(opt_idx) <= 1 else [(0, 0, 0), (1, 1, 1)]
            pairs = template_pairs("full" if len(opt_idx) <= (2 if thorough else 1) else "reduced")
            lists = CHART_LISTS if len(opt_idx) <= 2 else CHART_LISTS[:4]
            acc.count("states")
            for mand in mands:
                for cl in lists:
                    for st, ct in pairs:
                        case = {"kind": "conversion", "optional": list(opt_idx), "mandatory": list(mand), "charts": cl, "sim_template": st, "chart_template": ct, "rotate": len(opt_idx) % 3}
                        core.guard_cheap(acc, case)
                        model = source_model(opt_idx, mand, cl, case["rotate"])
                        fails = check_conversion(model, st, ct)
                        acc.count("evaluations")
                        if cl and (st != "none" or ct != "none"):
                            acc.count("nontrivial")
                        if st == "empty" or ct == "empty":
                            acc.outcome("empty caller template")
                        if st == "withchart":
                            acc.outcome("template that already has a chart")
                        if any(OPTIONAL[i][0] == "ANIMATIONS" for i in opt_idx):
                            acc.outcome("source using the ANIMATIONS alias")
                        for f in fails:
                            acc.violation(f["clause"], case, f["expected"], f["observed"], signature=(f["clause"], st if "template" in f["clause"] or "exactly" in f["clause"] else None))

        def rec(opt_idx):
            visit(opt_idx)
            if len(opt_idx) < max_opt:
                for j in range(opt_idx[-1] + 1 if opt_idx else 0, n):
                    acc.count("transitions")
                    rec(opt_idx + [j])

        if first is None:
            visit([])
        else:
            acc.count("transitions")
            rec([first])
            acc.sample(layer, {"first_optional_property": OPTIONAL[first][0], "max_optional": max_opt})
    elif kind == "vocab":
        layer = "vocabulary in the source"
        case = None
        for tok in X.VOCABULARY:
            if tok != tok.strip() or not tok:
                continue  # SM chart fields are trimmed when an SM file is loaded; built objects hold what they are given
            model = {"type": "sm", "items": [("TITLE", tok), ("OFFSET", "0.000"), ("BPMS", "0.000=120.000"), ("STOPS", ""), ("ATTACKS", tok), ("GENRE", tok)],
                     "charts": [{"fields": [tok, tok, tok, tok, tok, "0000\n0000\n0000\n0000"], "extra": None}, {"fields": ["dance-single", "", tok, "1", "", "1000\n0000\n0000\n0000"], "extra": None}]}
            for st, ct in (("none", "none"), ("blank", "blank")):
                case = {"kind": "vocab", "token": tok, "sim_template": st, "chart_template": ct}
                core.guard_cheap(acc, case)
                fails = check_conversion(model, st, ct)
                acc.count("evaluations")
                acc.count("states")
                acc.count("transitions")
                acc.count("nontrivial")
                acc.outcome("vocabulary value in the source")
                for f in fails:
                    acc.violation(f["clause"], case, f["expected"], f["observed"], signature=(f["clause"], "vocab"))
        acc.sample(layer, case)
    elif kind == "negative":
        layer = "refusal of negative timing"
        for key, val in (("BPMS", "0.000=120.000,\n4.000=-60.000"), ("STOPS", "2.000=-0.500"), ("BPMS", "0.000=-1"), ("STOPS", "1.000=0.5,\n2.000=-0.001")):
            for st, ct in template_pairs("reduced"):
                for cl in CHART_LISTS[:3]:
                    case = {"kind": "conversion", "optional": [0], "mandatory": [0, 0, 0], "charts": cl, "sim_template": st, "chart_template": ct, "override": {key: val}}
                    core.guard_cheap(acc, case)
                    fails = check_case(case)
                    acc.count("evaluations")
                    acc.count("states")
                    acc.count("transitions")
                    acc.count("nontrivial")
                    acc.outcome("negative timing source")
                    for f in fails:
                        acc.violation(f["clause"], case, f["expected"], f["observed"], signature=(f["clause"],))
        # zero is not negative: such sources must be converted
        for key, val in (("STOPS", "4.000=0.000"), ("STOPS", "1.000=0,\n2.000=0.5"), ("BPMS", "0.000=120.000,\n8.000=0.000")):
            for st, ct in template_pairs("reduced"):
                for cl in CHART_LISTS[:3]:
                    case = {"kind": "conversion", "optional": [0], "mandatory": [0, 0, 0], "charts": cl, "sim_template": st, "chart_template": ct, "override": {key: val}}
                    core.guard_cheap(acc, case)
                    fails = check_case(case)
                    acc.count("evaluations")
                    acc.count("states")
                    acc.count("transitions")
                    acc.count("nontrivial")
                    acc.outcome("zero-valued stop / BPM source")
                    for f in fails:
                        acc.violation(f["clause"], case, f["expected"], f["observed"], signature=(f["clause"], "zero"))
        acc.sample(layer, case)
    elif kind == "corpus":
        for st, ct in template_pairs("full"):
            case = {"kind": "corpus", "sim_template": st, "chart_template": ct}
            core.guard(acc, case)
            fails = check_corpus(st, ct)
            acc.count("evaluations")
            acc.count("states")
            acc.count("nontrivial")
            acc.count("corpus_conversions")
            for f in fails:
                acc.violation(f["clause"] + " (corpus)", case, "(large)" if len(str(f["expected"])) > 400 else f["expected"], "(large)" if len(str(f["observed"])) > 400 else f["observed"], signature=("corpus", f["clause"]))
        acc.sample("corpus nekonabe.sm", case)


def probe(p):
    if p["kind"] == "conversion":
        fails = check_case(p)
        return fails[0]["clause"] if fails else None
    return None


def explore(run):
    run.run_probes(probe)
    shards = []
    max_opt = 4 if run.thorough() else 3
    shards.append(("tree", None, max_opt, run.thorough()))
    for i in range(len(OPTIONAL)):
        shards.append(("tree", i, max_opt, run.thorough()))
    shards.append(("negative",))
    shards.append(("vocab",))
    shards.append(("corpus",))
    k = run.seed % len(shards)
    shards = shards[k:] + shards[:k]
    run.merge(core.pmap(explore_shard, shards, run.seed))
    acc = run.acc
    run.rule = (
        f"construction tree over subsets of <= {max_opt} of {len(OPTIONAL)} optional source properties (incl. ANIMATIONS alias, SSC-only keys already present, unknown and key-only keys) on top of OFFSET/BPMS/STOPS in 2 spellings each, "
        f"x chart lists {CHART_LISTS} x simfile templates {SIM_TEMPLATES} x chart templates {CHART_TEMPLATES} (full template product for small subsets, 11 pairs otherwise); "
        "negative BPM/stop sources x templates; the corpus SM file x all 38 template pairs. Non-trivial = source with charts and a caller template."
    )
    run.assumptions = [
        "mc/models/convert.py states the expected result; the blank templates' content is read from the library",
        "key order of the result is not claimed; chart templates carry no timing values (one carries empty timing keys)",
        "a FREEZES source is a known finding probed separately",
    ]
    core.require(acc.outcomes["vocabulary value in the source"] > 0, "no vocabulary")
    core.require(acc.outcomes["empty caller template"] > 0, "no empty template")
    core.require(acc.outcomes["template that already has a chart"] > 0, "no template with chart")
    core.require(acc.outcomes["negative timing source"] > 0, "no negative source")
    core.require(acc.outcomes["zero-valued stop / BPM source"] > 0, "no zero-valued source")
    core.require(acc.c["corpus_conversions"] > 0, "no corpus conversion")
    return run.finish(
        states=acc.c["states"],
        transitions=acc.c["transitions"],
        evaluations=acc.c["evaluations"],
        distinct_nontrivial=acc.c["nontrivial"],
    )
