"""
C02 - SSC simfile: serialize then strictly parse gives back the same simfile
(each chart's note data moved last; nothing dropped or renamed because of value
equality or identity).

Layer A: value space in SSC contexts.  Layer K: exhaustive chart alphabet (all
orderings of a few chart keys with NOTES / NOTES2 at every position, values including
None, interned one-character strings, an equal fresh copy of the notes string and the
very same object).  Layer B: breadth-first edit histories with state matching.
"""
import copy
import itertools
import os

from .. import core
from ..models import msd as M
from . import hist_common as H
from . import text_common as X

LEVEL = "model_checking"
SIGMA = ["a", "#", ":", ";", "\\", "/", "\n", "\r", " "]
SOUP = "a:b;c\\d//e\nf #g"
CONTEXTS = ["value", "attacks", "chart_value", "chart_attacks", "chart_displaybpm", "chart_key", "notes", "notes2",
            "chart_stepstype", "chart_difficulty", "chart_meter", "version"]
CHART_KEYS = ["STEPSTYPE", "METER", "CREDIT", "ATTACKS", "X"]
NOTES_VALUES = ["", "0", "xy", "00\n01"]
VAL_KINDS = ["", "0", "1", "x", None, "copy-of-notes", "same-as-notes"]
VAL_KINDS_SMALL = ["", None, "same-as-notes"]


def state_for(context, v):
    items = [("VERSION", "0.83"), ("TITLE", "t")]
    chart = [("STEPSTYPE", "dance-single"), ("METER", "1"), ("NOTES", "0000")]
    if context == "value":
        items = [("VERSION", "0.83"), ("TITLE", v), ("ARTIST", "x")]
    elif context == "attacks":
        items.append(("ATTACKS", v))
    elif context == "chart_value":
        chart.insert(1, ("CHARTNAME", v))
    elif context == "chart_attacks":
        chart.insert(0, ("ATTACKS", v))
    elif context == "chart_displaybpm":
        chart.insert(2, ("DISPLAYBPM", v))
    elif context == "chart_key":
        k = v.upper()
        if k in ("NOTEDATA", "NOTES", "NOTES2") or k != k.upper() or k in ("STEPSTYPE", "METER"):
            return None
        chart.insert(1, (k, "x"))
    elif context in ("chart_stepstype", "chart_difficulty", "chart_meter"):
        # the fields SM charts trim: in an SSC chart they are ordinary values and must survive verbatim
        key = context[len("chart_"):].upper()
        chart = [(k, val) for k, val in chart if k != key]
        chart.insert(0 if key == "STEPSTYPE" else 1, (key, v))
        if key == "DIFFICULTY":
            chart.insert(0, ("STEPSTYPE", "dance-single")) if not any(k == "STEPSTYPE" for k, _ in chart) else None
    elif context == "version":
        items = [("VERSION", v), ("TITLE", "t")]
    elif context == "sim_key":
        # a simfile-level key (NOTES / NOTES2 are ordinary keys there), followed by another property
        k = v.upper()
        if k != v or k in ("NOTEDATA", "VERSION", "TITLE") or not k:
            return None
        items = [("VERSION", "0.83"), (k, ""), ("TITLE", "t"), ("A", "")]
    elif context == "version_desc":
        # the version together with a chart that has a DESCRIPTION and no CHARTNAME
        items = [("VERSION", v), ("TITLE", "t")]
        chart = [("STEPSTYPE", "dance-single"), ("DESCRIPTION", "d"), ("METER", "1"), ("NOTES", "0000")]
    elif context == "notes":
        chart[-1] = ("NOTES", v)
    elif context == "notes2":
        chart = [("NOTES2", v), ("STEPSTYPE", "x")]
    return {"type": "ssc", "items": items, "charts": [{"items": chart}]}


def check_model(model, builder=None):
    try:
        obj = (builder or X.build_object)(model)
    except core.WatchdogTimeout:
        raise
    except Exception as e:
        return [{"clause": "building the simfile through the public API raised", "expected": "object", "observed": f"{type(e).__name__}: {e}"}], "ok"
    return H.check_roundtrip(model, obj)


def chart_case_model(order, notes_key, pos, notes_value, kinds):
    """order: tuple of other keys; kinds: value kind per other key. Returns (model, builder)."""
    items = []
    vals = {}
    for k, kind in zip(order, kinds):
        vals[k] = kind
    seq = list(order)
    seq.insert(pos, notes_key)

    def build(_model):
        sf = X.SSCSimfile(string="")
        sf["VERSION"] = "0.83"
        ch = X.SSCChart()
        notes_obj = H.fresh(notes_value) if len(notes_value) > 1 else notes_value
        for k in seq:
            if k == notes_key:
                ch[k] = notes_obj
            else:
                kind = vals[k]
                if kind == "copy-of-notes":
                    ch[k] = H.fresh(notes_value)
                elif kind == "same-as-notes":
                    ch[k] = notes_obj
                else:
                    ch[k] = kind
        sf.charts.append(ch)
        return sf

    for k in seq:
        if k == notes_key:
            items.append((k, notes_value))
        else:
            kind = vals[k]
            items.append((k, notes_value if kind in ("copy-of-notes", "same-as-notes") else kind))
    model = {"type": "ssc", "items": [("VERSION", "0.83")], "charts": [{"items": items}]}
    return model, build


SPACE = None


def space():
    global SPACE
    if SPACE is None:
        SPACE = H.Space("ssc")
    return SPACE


_INIT = None


def initial_states():
    global _INIT
    if _INIT is None:
        _INIT = _initial_states()
    return _INIT


def _initial_states():
    out = {}
    out["SSCSimfile()"] = ({"type": "ssc", "items": [], "charts": []}, lambda: X.SSCSimfile())
    out["SSCSimfile(string='')"] = ({"type": "ssc", "items": [], "charts": []}, lambda: X.SSCSimfile(string=""))
    out["SSCSimfile.blank()"] = (H.model_from_object(X.SSCSimfile.blank()), lambda: X.SSCSimfile.blank())
    for name, rel in (("Springtime.ssc (notes shortened)", "Springtime/Springtime.ssc"), ("L9.ssc (notes shortened)", "L9/L9.ssc")):
        path = os.path.join(core.SRC, "testdata", rel)
        if os.path.exists(path):
            def load(path=path):
                sf = X.simfile.open(path)
                sf.charts = list(sf.charts)[:3]
                for ch in sf.charts:
                    ch.notes = ",".join(ch.notes.split(",")[:2]).strip()
                return sf
            pristine = load()  # never serialized; every state's object starts from a deep copy of it
            out[name] = (H.model_from_object(pristine), lambda pristine=pristine: copy.deepcopy(pristine))
    return out


OPS = [
    ("set", "TITLE", None), ("set", "TITLE", "x"), ("set", "TITLE", SOUP), ("set", "ATTACKS", "a:b"), ("set", "ATTACKS", None), ("set", "VERSION", "0.83"), ("set", "VERSION", None),
    ("set", "", "x"), ("alias", "X Y", "TITLE"), ("del", "TITLE"), ("del", "VERSION"),
    ("pop", "TITLE"), ("popitem",), ("move_to_end", "VERSION"), ("update", [["TITLE", "u"], ["NEW", "v:w"]]), ("clear",),
    ("aset", "title", "t2"), ("adel", "title"), ("aset", "bgchanges", "b"), ("set", "ANIMATIONS", "a"), ("aset", "displaybpm", "1:2"),
    ("c_append", "blank"), ("c_append", "n2first"), ("c_append", "mid"), ("c_append", "empties"), ("c_append", "last"),
    ("c_insert0", "mid"), ("c_pop",), ("c_reverse",), ("c_set0", "empties"), ("c_assign", ["blank", "n2first"]), ("c_dup",),
    ("ck_set", 0, "CREDIT", ""), ("ck_set", 0, "METER", "0"), ("ck_set", 0, "ATTACKS", "x:y"), ("ck_set", 0, "X", None),
    ("ck_alias", 0, "CREDIT", "NOTES"), ("ck_alias", 0, "X", "STEPSTYPE"), ("ck_alias", 0, "Y", "NOTES2"),
    ("ck_set", 0, "NOTES", ("fresh", "0000\n0001")), ("ck_set", 0, "NOTES", ""), ("ck_set", 0, "NOTES", None), ("ck_set", 0, "NOTES2", "1"),
    ("ck_del", 0, "NOTES"), ("ck_del", 0, "NOTES2"), ("ck_del", 0, "CREDIT"),
    ("ck_pop", 0, "CREDIT"), ("ck_pop", 0, "STEPSTYPE"), ("ck_popitem", 0), ("ck_move_to_end", 0, "STEPSTYPE"), ("ck_move_to_end", 0, "NOTES"),
    ("ck_update", 0, [["METER", "7"], ["Z", ""]]), ("ck_clear", 0),
    ("ck_aset", 0, "notes", "n"), ("ck_adel", 0, "notes"), ("ck_aset", 0, "credit", ("fresh", "xy")),
]


def check_case(case):
    if case["kind"] == "value":
        m = state_for(case["context"], case["value"])
        return [] if m is None else check_model(m)[0]
    if case["kind"] == "chart":
        m, b = chart_case_model(tuple(case["order"]), case["notes_key"], case["pos"], case["notes_value"], tuple(case["kinds"]))
        return check_model(m, b)[0]
    if case["kind"] == "scale":
        label, model = X.scale_models("ssc", case.get("thorough", False))[case["index"]]
        return H.check_roundtrip(model, X.build_object(model))[0]
    if case["kind"] == "history":
        model, mk = initial_states()[case["init"]]
        return H.replay_history(space(), model, mk(), case["ops"])
    raise core.MachineryError("unknown case")


def tally(acc, case, fails, status, nontrivial):
    acc.count("evaluations")
    if status != "ok":
        acc.count(status.split(":")[0])
        if status.startswith("excluded"):
            acc.outcome("excluded: dependency gap")
        return
    acc.count("roundtrips_checked")
    if nontrivial:
        acc.count("nontrivial")
    for f in fails:
        acc.violation(f["clause"], case, f["expected"], f["observed"], signature=(f["clause"], case.get("context")))


def explore_shard(acc, shard):
    kind = shard[0]
    if kind == "A":
        _, prefix, maxlen = shard
        layer = "A values over the metacharacter alphabet"
        v = ""
        for n in range(0, maxlen - len(prefix) + 1):
            for rest in itertools.product(SIGMA, repeat=n):
                v = "".join(prefix + rest)
                acc.count("states")
                acc.count("transitions")
                for ctx in CONTEXTS:
                    case = {"kind": "value", "context": ctx, "value": v}
                    core.guard_cheap(acc, case)
                    m = state_for(ctx, v)
                    if m is None:
                        acc.count("out_of_domain")
                        continue
                    fails, status = check_model(m)
                    tally(acc, case, fails, status, any(ch in v for ch in "#:;\\/\n\r"))
        acc.sample(layer, {"value": v, "contexts": CONTEXTS})
    elif kind == "K":
        _, order, kinds_pool = shard
        layer = "K chart alphabet"
        case = None
        for notes_key in ("NOTES", "NOTES2"):
            for pos in range(len(order) + 1):
                for nv in NOTES_VALUES:
                    for kinds in itertools.product(kinds_pool, repeat=len(order)):
                        case = {"kind": "chart", "order": list(order), "notes_key": notes_key, "pos": pos, "notes_value": nv, "kinds": list(kinds)}
                        core.guard_cheap(acc, case)
                        m, b = chart_case_model(order, notes_key, pos, nv, kinds)
                        fails, status = check_model(m, b)
                        acc.count("states")
                        acc.count("transitions")
                        tally(acc, case, fails, status, True)
                        if "same-as-notes" in kinds:
                            acc.outcome("value that is the same object as the note data")
                        if pos < len(order):
                            acc.outcome("note data not last")
                        if notes_key == "NOTES2":
                            acc.outcome("NOTES2 chart")
        if case:
            acc.sample(layer, case)
    elif kind == "B":
        _, init_name, first_op, depth = shard
        model, mk = initial_states()[init_name]
        H.bfs(acc, space(), "B edit histories", init_name, copy.deepcopy(model), mk, OPS, depth, first_op, prop="C02")
    elif kind == "S":
        _, part, nparts, thorough = shard
        layer = "S scale"
        case = None
        for i, (label, model) in enumerate(X.scale_models("ssc", thorough)):
            if i % nparts != part:
                continue
            case = {"kind": "scale", "index": i, "thorough": thorough, "label": label}
            core.guard(acc, case)
            fails, status = H.check_roundtrip(model, X.build_object(model))
            acc.count("evaluations")
            acc.count("states")
            acc.count("transitions")
            acc.count("nontrivial")
            if status == "ok":
                acc.count("roundtrips_checked")
                acc.outcome("scale simfile")
            else:
                acc.count(status.split(":")[0])
            for f in fails:
                acc.violation(f["clause"], case, str(f["expected"])[:300], str(f["observed"])[:300], signature=("scale", f["clause"]))
        if case:
            acc.sample(layer, case)
    elif kind == "V":
        layer = "V vocabulary (values that mean something elsewhere) in every context"
        for ctx in CONTEXTS + ["version_desc", "sim_key"]:
            for tok in (X.KEY_VOCABULARY + X.VOCABULARY + ["NOTES", "NOTES2"] if ctx in ("chart_key", "sim_key") else X.VOCABULARY + [""]):
                case = {"kind": "value", "context": ctx, "value": tok}
                core.guard_cheap(acc, case)
                m = state_for(ctx, tok)
                acc.count("states")
                acc.count("transitions")
                if m is None:
                    acc.count("out_of_domain")
                    continue
                fails, status = check_model(m)
                tally(acc, case, fails, status, True)
        acc.outcome("vocabulary value")
        acc.sample(layer, {"kind": "value", "context": "version_desc", "value": ".5"})
    elif kind == "W":
        _, init_name = shard
        model, mk = initial_states()[init_name]
        H.long_walk(acc, space(), "W long walk from " + init_name, init_name, copy.deepcopy(model), mk, OPS, prop="C02")


def probe(p):
    if p["kind"] == "value":
        m = state_for(p["context"], p["value"])
        fails, status = check_model(m)
        if fails:
            return "violation: " + fails[0]["clause"]
        if status.startswith("excluded"):
            return "dependency gap"
    return None


def explore(run):
    run.run_probes(probe)
    shards = []
    amax = 6 if run.thorough() else 4
    shards.append(("A", (), 1))
    for a in SIGMA:
        for b in SIGMA:
            shards.append(("A", (a, b), amax))
    full_k = 3 if run.thorough() else 2
    small_k = 4 if run.thorough() else 3
    for k in range(0, small_k + 1):
        for order in itertools.permutations(CHART_KEYS, k):
            shards.append(("K", order, VAL_KINDS if k <= full_k else VAL_KINDS_SMALL))
    depth = 4 if run.thorough() else 3
    for name in initial_states():
        # the bare constructor is the same state as the empty simfile (one step is enough to show it works);
        # corpus states (large objects) are explored one step less deep than the empty and blank simfiles
        d = 1 if name == "SSCSimfile()" else (depth - 1 if "shortened" in name else depth)
        shards.append(("B", name, None, 0))
        for i in range(len(OPS) + 1):  # + the 'serialize' operation
            shards.append(("B", name, i, d))
    for name in initial_states():
        if "shortened" not in name:
            shards.append(("W", name))  # one long history per small initial state
    for part in range(8):
        shards.append(("S", part, 8, run.thorough()))
    shards.append(("V",))
    k = run.seed % len(shards)
    shards = shards[k:] + shards[:k]
    run.merge(core.pmap(explore_shard, shards, run.seed))
    acc = run.acc
    bstates = acc.distinct("states")
    run.extra = {
        "roundtrips_checked": int(acc.c["roundtrips_checked"]),
        "excluded_dependency_gap": int(acc.c["excluded"]),
        "out_of_domain_states": int(acc.c["out_of_domain"]),
        "history_states_distinct": bstates,
        "history_states_visited": int(acc.c["states_visited"]),
    }
    run.rule = (
        f"A: every string of length <= {amax} over {SIGMA!r} in {len(CONTEXTS)} SSC contexts; "
        f"K: every ordering of <= {small_k} chart keys from {CHART_KEYS} x NOTES/NOTES2 at every position x notes values {NOTES_VALUES!r} x values per key from {VAL_KINDS!r} (<= {full_k} keys) or {VAL_KINDS_SMALL!r} (more keys); "
        f"B: breadth-first edit histories of depth <= {depth} (corpus states {depth - 1}, bare constructor 1) over {len(OPS)} operations + serialize from {len(initial_states())} initial states, state matching on content, order and string identity. "
        "Non-trivial = metacharacter value / any chart-alphabet case / state with a chart or None."
        + " W: from every small initial state one uninterrupted history on one live object in which every ordered pair of operations (incl. serialize) occurs consecutively (order-2 de Bruijn sequence, about 2000 steps), compared with the model after every step, round trip every 16 steps."
        + " S: scale simfiles - one-line lists of 7..700 entries, each of : // \\ ; at every offset in a window before 4096 and 8192 (thorough 16384, 65536) in the first property, the note data and a description, 17 / 130 / 1100 charts, 400 properties."
        + f" V: the vocabulary of C01 ({len(X.VOCABULARY)} values, {len(X.KEY_VOCABULARY)} key look-alikes) in every SSC context, also as VERSION (alone, and with a chart that has a DESCRIPTION but no CHARTNAME)."
    )
    run.assumptions = [
        "msdparser is the trusted tokenizer/escaper; escaping gaps are excluded operationally and counted",
        "a chart is in the domain when exactly one of NOTES/NOTES2 is present; other states are explored but not judged",
    ]
    core.require(acc.outcomes["vocabulary value"] > 0, "no vocabulary")
    core.require(acc.outcomes["scale simfile"] > 0, "no scale simfile")
    core.require(acc.outcomes["long walk on one live object"] > 0, "no long walk")
    core.require(acc.c["roundtrips_checked"] > 1000, "too few round trips")
    core.require(acc.outcomes["value that is the same object as the note data"] > 0, "no aliasing case")
    core.require(acc.outcomes["note data not last"] > 0, "notes always last")
    core.require(acc.outcomes["NOTES2 chart"] > 0, "no NOTES2 chart")
    core.require(acc.outcomes["state reached after an earlier serialization"] > 0, "no history with an intermediate serialization")
    core.require(acc.outcomes["state with charts"] > 0, "no chart states in histories")
    return run.finish(
        states=acc.c["states"] + bstates,
        transitions=acc.c["transitions"],
        evaluations=acc.c["evaluations"],
        distinct_nontrivial=acc.c["nontrivial"],
    )
