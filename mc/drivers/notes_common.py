"""Glue between the notes reference model (plain tuples) and the library's objects."""
import itertools
from fractions import Fraction

from .. import core
from ..models import notes as M

core.import_simfile()
from simfile.notes import Note, NoteData, NoteType  # noqa: E402
from simfile.notes.group import (  # noqa: E402
    NoteWithTail,
    OrphanedNoteException,
    OrphanedNotes,
    SameBeatNotes,
    group_notes,
    ungroup_notes,
)
from simfile.timing import Beat  # noqa: E402

NT = {t.value: t for t in NoteType}
POLICY = {M.RAISE: OrphanedNotes.RAISE_EXCEPTION, M.KEEP: OrphanedNotes.KEEP_ORPHAN, M.DROP: OrphanedNotes.DROP_ORPHAN}
MODE = {M.SEPARATE: SameBeatNotes.KEEP_SEPARATE, M.BY_TYPE: SameBeatNotes.JOIN_BY_NOTE_TYPE, M.JOIN_ALL: SameBeatNotes.JOIN_ALL}
POLICIES = (M.RAISE, M.KEEP, M.DROP)
MODES = (M.SEPARATE, M.BY_TYPE, M.JOIN_ALL)


def to_impl(note):
    """model tuple -> library Note"""
    return Note(
        beat=Beat(note[0].numerator, note[0].denominator),
        column=note[1],
        note_type=NT[note[2]],
        player=note[3],
        keysound_index=note[4],
    )


def from_impl(n):
    """library Note / NoteWithTail -> model tuple (class checked)"""
    if type(n) is Note:
        return (Fraction(n.beat), n.column, n.note_type.value, n.player, n.keysound_index)
    if type(n) is NoteWithTail:
        return (
            Fraction(n.beat),
            n.column,
            n.note_type.value,
            Fraction(n.tail_beat),
            n.player,
            n.keysound_index,
        )
    return ("?", repr(n))


def grid_rows(cols, alphabet):
    """All row contents of a grid: tuples of cell kinds, simplest (all '0') first."""
    return list(itertools.product(alphabet, repeat=cols))


def cell_note(cell, beat, col, player=0):
    """A cell kind is '0', a type character, or 'c[k]' for a keysounded note."""
    if cell == "0":
        return None
    if "[" in cell:
        return (beat, col, cell[0], player, int(cell[2:-1]))
    return (beat, col, cell, player, None)


def stream_of(rows, beats, player=0):
    out = []
    for r, row in enumerate(rows):
        for c, cell in enumerate(row):
            n = cell_note(cell, beats[r], c, player)
            if n is not None:
                out.append(n)
    return out


def subsets(items):
    items = list(items)
    for r in range(len(items) + 1):
        for s in itertools.combinations(items, r):
            yield s


def corpus_charts():
    """(name, chart) for every chart of the corpus files under testdata/."""
    import os
    import simfile

    out = []
    base = os.path.join(core.SRC, "testdata")
    for rel in ("nekonabe/nekonabe.sm", "Springtime/Springtime.ssc", "L9/L9.ssc"):
        path = os.path.join(base, rel)
        if not os.path.exists(path):
            continue
        sf = simfile.open(path)
        for i, ch in enumerate(sf.charts):
            out.append((f"{rel}#{i}", sf, ch))
    return out
