"""Glue between the notes reference model (plain tuples) and the library's objects."""
import itertools
from fractions import Fraction

from .. import core
from ..models import notes as M

core.import_simfile()
from simfile.notes import Note, NoteData, NoteType  # noqa: E402
from simfile.notes.group import (  # noqa: E402
    NoteWithTail,
    OrphanedNoteException,
    OrphanedNotes,
    SameBeatNotes,
    group_notes,
    ungroup_notes,
)
from simfile.timing import Beat  # noqa: E402

NT = {t.value: t for t in NoteType}
POLICY = {M.RAISE: OrphanedNotes.RAISE_EXCEPTION, M.KEEP: OrphanedNotes.KEEP_ORPHAN, M.DROP: OrphanedNotes.DROP_ORPHAN}
MODE = {M.SEPARATE: SameBeatNotes.KEEP_SEPARATE, M.BY_TYPE: SameBeatNotes.JOIN_BY_NOTE_TYPE, M.JOIN_ALL: SameBeatNotes.JOIN_ALL}
POLICIES = (M.RAISE, M.KEEP, M.DROP)
MODES = (M.SEPARATE, M.BY_TYPE, M.JOIN_ALL)


def to_impl(note):
    """model tuple -> library Note"""
    return Note(
        beat=Beat(note[0].numerator, note[0].denominator),
        column=note[1],
        note_type=NT[note[2]],
        player=note[3],
        keysound_index=note[4],
    )


def from_impl(n):
    """library Note / NoteWithTail -> model tuple (class checked)"""
    if type(n) is Note:
        return (Fraction(n.beat), n.column, n.note_type.value, n.player, n.keysound_index)
    if type(n) is NoteWithTail:
        return (
            Fraction(n.beat),
            n.column,
            n.note_type.value,
            Fraction(n.tail_beat),
            n.player,
            n.keysound_index,
        )
    return ("?", repr(n))


def grid_rows(cols, alphabet):
    """All row contents of a grid: tuples of cell kinds, simplest (all '0') first."""
    return list(itertools.product(alphabet, repeat=cols))


def cell_note(cell, beat, col, player=0):
    """A cell kind is '0', a type character, or 'c[k]' for a keysounded note."""
    if cell == "0":
        return None
    if "[" in cell:
        return (beat, col, cell[0], player, int(cell[2:-1]))
    return (beat, col, cell, player, None)


def stream_of(rows, beats, player=0):
    """A cell kind written 'a+b' holds two notes in one cell (ill-formed but still position-sorted)."""
    out = []
    for r, row in enumerate(rows):
        for c, cell in enumerate(row):
            for part in cell.split("+"):
                n = cell_note(part, beats[r], c, player)
                if n is not None:
                    out.append(n)
    return out


def subsets(items):
    items = list(items)
    for r in range(len(items) + 1):
        for s in itertools.combinations(items, r):
            yield s


def corpus_charts():
    """(name, chart) for every chart of the corpus files under testdata/."""
    import os
    import simfile

    out = []
    base = os.path.join(core.SRC, "testdata")
    for rel in ("nekonabe/nekonabe.sm", "Springtime/Springtime.ssc", "L9/L9.ssc"):
        path = os.path.join(base, rel)
        if not os.path.exists(path):
            continue
        sf = simfile.open(path)
        for i, ch in enumerate(sf.charts):
            out.append((f"{rel}#{i}", sf, ch))
    return out


# ---------------------------------------------------------------------------
# generated note-data texts (shared by C07, C08, C13)
# ---------------------------------------------------------------------------

ROWS_PER_MEASURE = (1, 2, 3, 4, 5, 8, 12, 16, 24, 32, 48, 64, 192)
INDENTS = ("", " ", "\t  ")
TRAILS = ("", " ")
NEWLINES = ("\n", "\r\n")
SEP_STYLES = ("tight", "blank-lines", "spaced")
EDGE_STYLES = ("none", "newline", "blank-lines")


def render(sections, indent="", trail="", nl="\n", sep="tight", edge="none"):
    """
    sections: list (players) of lists (measures) of lists (rows) of row strings
    (cells already rendered, e.g. '10[7]0').  Returns the note data text.
    """
    def sepstr(ch):
        if sep == "tight":
            return nl + ch + nl
        if sep == "blank-lines":
            return nl + nl + ch + nl + nl
        return trail + nl + " " + ch + " " + nl
    lead = {"none": "", "newline": nl, "blank-lines": nl + " " + nl}[edge]
    tail = {"none": "", "newline": nl, "blank-lines": nl + nl}[edge]
    secs = []
    for sec in sections:
        ms = []
        for rows in sec:
            ms.append(nl.join(indent + r + trail for r in rows))
        secs.append(sepstr(",").join(ms))
    return lead + sepstr("&").join(secs) + tail


def intended_notes(sections):
    """The notes a rendered text is meant to contain (third opinion next to the model reader)."""
    out = []
    for p, sec in enumerate(sections):
        for m, rows in enumerate(sec):
            for r, row in enumerate(rows):
                cells = M._CELL.findall(row)
                for c, (ch, ks) in enumerate(cells):
                    if ch != "0":
                        out.append((Fraction(4 * m) + Fraction(4 * r, len(rows)), c, ch, p, int(ks) if ks else None))
    return out


def measure_rows(nrows, cols, salt):
    """Deterministic content for a measure: notes on the first, a middle and the last row."""
    kinds = ("1", "2", "M", "4", "L", "3")
    rows = [["0"] * cols for _ in range(nrows)]
    rows[0][salt % cols] = kinds[salt % 6]
    rows[nrows - 1][(salt + 1) % cols] = kinds[(salt + 1) % 6]
    mid = nrows // 2
    rows[mid][(salt + 2) % cols] = kinds[(salt + 2) % 6]
    if nrows > 3:
        rows[(nrows // 3)][(salt + 3) % cols] = kinds[(salt + 3) % 6]
    return ["".join(r) for r in rows]


def shape_sections(shape, players, cols):
    """shape = tuple of rows-per-measure; the same shape (different content) per player."""
    return [
        [measure_rows(n, cols, salt=3 * p + 5 * m + n) for m, n in enumerate(shape)]
        for p in range(players)
    ]


def format_shapes(thorough):
    shapes = [(a,) for a in ROWS_PER_MEASURE] + [(a, b) for a in ROWS_PER_MEASURE for b in ROWS_PER_MEASURE]
    if thorough:
        shapes += [(a, b, c) for a in ROWS_PER_MEASURE for b in ROWS_PER_MEASURE for c in ROWS_PER_MEASURE]
    else:
        shapes += [(a, b, a) for a in (1, 3, 5) for b in (4, 12)]
    return shapes


def format_styles():
    return [
        dict(indent=i, trail=t, nl=n, sep=s, edge=e)
        for i in INDENTS for t in TRAILS for n in NEWLINES for s in SEP_STYLES for e in EDGE_STYLES
    ]


KS_CELLS = ("0", "1", "1[0]", "2[7]", "M[12]", "4[123]", "M", "3", "1[007]")


# ---------------------------------------------------------------------------
# long streams: the same rules on inputs whose size, not shape, is the point
# ---------------------------------------------------------------------------

def long_streams(thorough=False):
    """
    (label, columns, stream) - model note tuples (beat, column, type, player, keysound).  Sizes sit around the
    powers of two at which buffers, blocks and chunking strategies usually switch (2^10, 2^12; thorough: 2^14, 2^16).
    """
    from fractions import Fraction as F
    from ..models import notes as M
    out = []
    sizes = [1023, 1024, 1025, 4095, 4096, 4097] + ([16384, 16385, 65536, 65537] if thorough else [])
    for n in sizes:
        # a hold that stays open while n notes pass in another column, then closes
        s = [(F(0), 0, M.HOLD, 0, None)] + [(F(i, 48), 1, M.TAP, 0, None) for i in range(1, n + 1)] + [(F(n + 1, 48), 0, M.TAIL, 0, None)]
        out.append((f"hold open over {n} taps", 2, s))
        # ... and interrupted instead of closed (orphan head far behind)
        s = [(F(0), 0, M.ROLL, 0, 5)] + [(F(i, 48), 1, M.TAP, 0, None) for i in range(1, n + 1)] + [(F(n + 1, 48), 0, M.MINE, 0, None), (F(n + 2, 48), 0, M.TAIL, 0, None)]
        out.append((f"roll interrupted after {n} taps", 2, s))
    for j in [2047, 2048, 2049] + ([8192, 32768] if thorough else []):
        # one tap, then j two-note rows: row k occupies stream positions 2k-1, 2k (every row straddles an even index)
        s = [(F(0), 0, M.TAP, 0, None)]
        for k in range(1, j + 1):
            s += [(F(k, 4), 0, M.TAP, 0, None), (F(k, 4), 1, M.MINE if k % 5 == 0 else M.TAP, 0, None)]
        out.append((f"a tap and {j} two-note rows", 2, s))
        # three-note rows from the start
        s = []
        for k in range(j * 2 // 3 + 2):
            s += [(F(k, 4), c, M.TAP, 0, None) for c in range(3)]
        out.append((f"{j * 2 // 3 + 2} three-note rows", 3, s))
    # many short holds one after the other in every column, with keysounds of growing width
    s = []
    for k in range(1500):
        c = k % 4
        s.append((F(k, 2), c, M.HOLD if k % 3 else M.ROLL, 0, k if k % 7 == 0 else None))
        s.append((F(k, 2) + F(1, 4), c, M.TAIL, 0, None))
    out.append(("1500 short holds", 4, s))
    return out
