"""
C07 - note data text decodes to exactly one correctly placed note per non-zero cell.

Layers (all exhaustive within their bounds):
  G  cell grids: every grid of a small shape over {0,1,2,3,M}; every single row of
     <=4 columns over all nine note characters;
  F  format variation: rows-per-measure shapes x players x indentation x trailing
     blanks x LF/CRLF x separator styles x leading/trailing blank lines;
  K  keysound brackets: every row of 4 cells over plain and bracketed cell kinds, as
     first and as second row; 1..16 columns with one (keysounded) note walked across;
  P  ordering: every ordered pair of notes from a position set, all six comparison
     operators, sorted/min/max on every 3-element selection.
"""
import itertools
from fractions import Fraction

from .. import core
from ..models import notes as M
from . import notes_common as N

from simfile.sm import SMChart  # noqa: E402
from simfile.ssc import SSCChart  # noqa: E402

LEVEL = "model_checking"
Beat = N.Beat
NoteData = N.NoteData

GRID_ALPHABET = ("0", "1", "2", "3", "M")


def check_text(text, intended=None, cols=None, deep=False):
    """All clauses of C07 for one text.  Returns a list of failure dicts."""
    fails = []

    def fail(clause, expected, observed):
        fails.append({"clause": clause, "expected": core.jsonable(expected), "observed": core.jsonable(observed)})

    model_notes, model_cols = M.read_notedata(text)
    if intended is not None and (model_notes != intended or (cols is not None and model_cols != cols)):
        raise core.MachineryError(f"reader model and generator disagree on {text!r}")
    try:
        nd = NoteData(text)
        inotes = list(nd)
    except core.WatchdogTimeout:
        raise
    except Exception as e:
        fail("decoding well-formed note data raised", "a list of notes", f"{type(e).__name__}: {e}")
        return fails
    got = [N.from_impl(n) for n in inotes]
    if list(nd) != inotes:
        fail("iterating the same note data a second time yields different notes", "same notes", "different")
    fresh = NoteData(text)
    it = iter(fresh)
    next(it, None)
    del it
    if list(fresh) != inotes:
        fail("iterating again after an abandoned first iteration yields different notes", "same notes", "different")
    # two live iterators at different rows: an outer pass paused after k notes while an inner pass runs to the end
    for k in sorted({1, len(inotes) // 2 + 1} if len(inotes) >= 2 else ()):
        nested = NoteData(text)
        it = iter(nested)
        head = [next(it) for _ in range(k)]
        inner = list(nested)
        outer = head + list(it)
        if inner != inotes:
            fail("a pass started while another pass is under way yields different notes", "same notes", "different")
        elif outer != inotes:
            fail("a pass is disturbed by a pass started while it is under way", "same notes", "different")
    if got != model_notes:
        fail("decoded notes differ from one-note-per-non-zero-cell reading", model_notes[:12], got[:12])
        return fails
    for n in inotes:
        if type(n.beat) is not Beat:
            fail("beat is not a Beat", "Beat", type(n.beat).__name__)
            break
        if type(n.column) is not int or type(n.player) is not int:
            fail("column/player not int", "int", repr((n.column, n.player)))
            break
    if nd.columns != model_cols:
        fail("reported column count differs from the row width", model_cols, nd.columns)
    if str(nd) != text:
        fail("str(NoteData(text)) is not the original text", text, str(nd))
    # strictly increasing (player, beat, column)
    pos = [(n.player, n.beat, n.column) for n in inotes]
    if any(not (a < b) for a, b in zip(pos, pos[1:])):
        fail("notes not in strictly increasing (player, beat, column) order", "sorted", pos[:12])
    # adjacent + first/last comparisons through the Note operators
    pairs = list(zip(inotes, inotes[1:]))
    if len(inotes) > 2:
        pairs.append((inotes[0], inotes[-1]))
    for a, b in pairs:
        try:
            r = (a < b, a <= b, a > b, a >= b, a == b, a != b, b < a, b <= a, b > a, b >= a)
        except Exception as e:
            r = f"{type(e).__name__}: {e}"
        if r != (True, True, False, False, False, True, False, False, True, True):
            fail("comparison operators disagree with position order", "a before b", {"a": N.from_impl(a), "b": N.from_impl(b), "ops": r})
            break
    if deep and 0 < len(inotes) <= 8:
        for perm in (list(reversed(inotes)), inotes[1::2] + inotes[0::2]):
            try:
                bad = sorted(perm) != inotes or min(perm) != inotes[0] or max(perm) != inotes[-1]
            except Exception as e:
                fail("sorted/min/max raised", "position order", f"{type(e).__name__}: {e}")
                break
            if bad:
                fail("sorted/min/max disagree with position order", [N.from_impl(n) for n in inotes], "different order")
                break
    if deep:
        # other constructors see the same
        for label, src in (("NoteData(NoteData)", nd),):
            nd2 = NoteData(src)
            if list(nd2) != inotes or nd2.columns != nd.columns or str(nd2) != text:
                fail(f"{label} differs", "same", "different")
        smc = SMChart.blank()
        smc.notes = text
        sscc = SSCChart.blank()
        sscc.notes = text
        for label, ch in (("NoteData(SMChart)", smc), ("NoteData(SSCChart)", sscc)):
            nd3 = NoteData(ch)
            if list(nd3) != inotes or nd3.columns != nd.columns or str(nd3) != text:
                fail(f"{label} differs", "same", "different")
    return fails


def check_pair(a, b):
    """a, b model tuples; every operator must agree with the position order."""
    ia, ib = N.to_impl(a), N.to_impl(b)
    pa, pb = M.position(a), M.position(b)
    exp = {
        "<": pa < pb, "<=": pa <= pb, ">": pa > pb, ">=": pa >= pb,
    }
    fails = []
    try:
        obs = {"<": ia < ib, "<=": ia <= ib, ">": ia > ib, ">=": ia >= ib}
    except Exception as e:
        obs = f"{type(e).__name__}: {e}"
    if obs != exp:
        fails.append({"clause": "comparison operators disagree with position order", "expected": exp, "observed": obs})
    # == / != are tuple equality: equal exactly when all five fields are equal
    if (ia == ib) != (a == b) or (ia != ib) != (a != b):
        fails.append({"clause": "==/!= disagree with field equality", "expected": a == b, "observed": ia == ib})
    return fails


def check_case(case):
    if case["kind"] == "text":
        return check_text(case["text"], deep=True)
    if case["kind"] == "pair":
        a, b = [(Fraction(x[0]), x[1], x[2], x[3], x[4]) for x in (case["a"], case["b"])]
        return check_pair(a, b)
    if case["kind"] == "triple":
        notes = [(Fraction(x[0]), x[1], x[2], x[3], x[4]) for x in case["notes"]]
        return check_triple(notes)
    raise core.MachineryError("unknown case kind")


def check_triple(notes):
    inotes = [N.to_impl(n) for n in notes]
    order = sorted(range(len(notes)), key=lambda i: M.position(notes[i]))
    exp = [inotes[i] for i in order]
    fails = []
    try:
        got = sorted(inotes)
        lo, hi = min(inotes), max(inotes)
    except Exception as e:
        return [{"clause": "sorted/min/max raised", "expected": "position order", "observed": f"{type(e).__name__}: {e}"}]
    if [M.position(N.from_impl(n)) for n in got] != [M.position(N.from_impl(n)) for n in exp]:
        fails.append({"clause": "sorted() disagrees with position order", "expected": [N.from_impl(n) for n in exp], "observed": [N.from_impl(n) for n in got]})
    if M.position(N.from_impl(lo)) != M.position(N.from_impl(exp[0])) or M.position(N.from_impl(hi)) != M.position(N.from_impl(exp[-1])):
        fails.append({"clause": "min()/max() disagree with position order", "expected": "first/last by position", "observed": [N.from_impl(lo), N.from_impl(hi)]})
    return fails


def fmt(n):
    return [f"{n[0].numerator}/{n[0].denominator}", n[1], n[2], n[3], n[4]]


# ---------------------------------------------------------------------------


def grid_shapes(max_cells):
    shapes = []
    for cols in (1, 2, 3, 4):
        for nm in (1, 2):
            for rows in itertools.product((1, 2, 3, 4), repeat=nm):
                if cols * sum(rows) <= max_cells:
                    shapes.append((cols, rows))
    return shapes


def report(acc, layer, case, fails):
    for f in fails:
        acc.violation(f["clause"], case, f.get("expected"), f.get("observed"), signature=(layer, f["clause"]))


def explore_shard(acc, shard):
    kind = shard[0]
    if kind == "G":
        _, cols, rows, first = shard
        ncells = cols * sum(rows)
        layer = "G cell grids"
        rest = ncells - 1
        for tail in itertools.product(GRID_ALPHABET, repeat=rest):
            cells = (first,) + tail
            it = iter(cells)
            sections = [[["".join(next(it) for _ in range(cols)) for _ in range(r)] for r in rows]]
            text = N.render(sections)
            core.guard_cheap(acc, {"kind": "text", "text": text})
            fails = check_text(text)
            acc.count("evaluations")
            acc.count("states")
            if sum(c != "0" for c in cells) >= 2:
                acc.count("nontrivial")
            if fails:
                report(acc, layer, {"kind": "text", "text": text}, fails)
        acc.sample(layer, {"cols": cols, "rows_per_measure": rows, "first_cell": first, "last_text": text})
        acc.count("transitions", len(GRID_ALPHABET) ** rest)
    elif kind == "G9":
        _, ncols = shard
        layer = "G single rows over all nine note characters"
        for cells in itertools.product(("0",) + M.ALL_TYPES, repeat=ncols):
            text = "".join(cells) + "\n"
            core.guard_cheap(acc, {"kind": "text", "text": text})
            fails = check_text(text)
            acc.count("evaluations")
            acc.count("states")
            acc.count("transitions")
            if sum(c != "0" for c in cells) >= 2:
                acc.count("nontrivial")
            if fails:
                report(acc, layer, {"kind": "text", "text": text}, fails)
        acc.sample(layer, {"text": text})
    elif kind == "F":
        _, shapes, thorough = shard
        layer = "F format variation"
        styles = N.format_styles()
        for shape in shapes:
            for players in (1, 2, 3):
                for cols in ((4,) if not thorough else (4, 2)):
                    sections = N.shape_sections(shape, players, cols)
                    intended = N.intended_notes(sections)
                    for st in styles:
                        text = N.render(sections, **st)
                        core.guard_cheap(acc, {"kind": "text", "text": text})
                        fails = check_text(text, intended, cols, deep=(sum(shape) <= 8))
                        acc.count("evaluations")
                        acc.count("states")
                        acc.count("transitions")
                        acc.count("nontrivial")
                        if players == 3:
                            acc.outcome("three player sections")
                        if st["nl"] == "\r\n":
                            acc.outcome("CRLF text")
                        if fails:
                            report(acc, layer, {"kind": "text", "text": text}, fails)
        acc.sample(layer, {"shape": shape, "players": players, "style": st, "text": text[:200]})
    elif kind == "K":
        _, first = shard
        layer = "K keysound brackets"
        for rest in itertools.product(N.KS_CELLS, repeat=3):
            row = "".join((first,) + rest)
            for other in ("0000", "1[5]001"):
                for pos in (0, 1):
                    rows = [row, other] if pos == 0 else [other, row]
                    for players, indent, nl in ((1, "", "\n"), (2, "", "\n"), (1, " ", "\n"), (1, "\t  ", "\r\n")):
                        sections = [[rows]] * players
                        text = N.render(sections, indent=indent, nl=nl)
                        core.guard_cheap(acc, {"kind": "text", "text": text})
                        fails = check_text(text, N.intended_notes(sections), 4, deep=True)
                        if indent and "[" in rows[1]:
                            acc.outcome("indented keysounded row that is not the first of its measure")
                        acc.count("evaluations")
                        acc.count("states")
                        acc.count("transitions")
                        if "[" in row:
                            acc.count("nontrivial")
                            acc.outcome("keysounded cell")
                        if fails:
                            report(acc, layer, {"kind": "text", "text": text}, fails)
        acc.sample(layer, {"text": text})
    elif kind == "R":
        # measures of 256, 384, 768 and 20 rows: beats with denominators 64, 96, 192, 5 (ordering and arithmetic)
        layer = "F large and odd row counts"
        for nrows in (256, 384, 768, 20, 7):
            for players in (1, 2):
                rows = ["00"] * nrows
                for r in (0, 1, 2, 3, nrows // 3, nrows // 2, nrows - 2, nrows - 1):
                    rows[r] = "1M" if r % 2 else "01"
                sections = [[rows, ["10", "00", "01"]]] * players
                text = N.render(sections)
                core.guard(acc, {"kind": "text", "text": text[:100]})
                fails = check_text(text, N.intended_notes(sections), 2, deep=False)
                acc.count("evaluations")
                acc.count("states")
                acc.count("transitions")
                acc.count("nontrivial")
                acc.outcome("measure with more than 192 rows")
                if fails:
                    report(acc, layer, {"kind": "text", "text": text}, fails)
        # note data of more than 2^20 characters (blank padding / 4000 measures): the same decoding
        for label, sections, pad in (("two measures and 2^20 trailing blanks", [[["10", "01"], ["0M", "20", "30", "01"]]], " " * (1 << 20)),
                                     ("two players and 2^20 trailing blanks", [[["10", "01"]], [["01", "10"], ["11"]]], "\n" * (1 << 20))):
            text = N.render(sections) + pad
            core.guard(acc, {"kind": "text", "text": text[:60], "label": label})
            fails = check_text(text, N.intended_notes(sections), 2, deep=False)
            acc.count("evaluations")
            acc.count("states")
            acc.count("transitions")
            acc.count("nontrivial")
            acc.outcome("note data longer than 2^20 characters")
            if fails:
                report(acc, layer, {"kind": "text", "text": N.render(sections), "padding": repr(pad[:1]) + " x 2^20"}, fails)
        acc.sample(layer, {"rows_per_measure": [256, 384, 768, 20, 7]})
    elif kind == "W":
        layer = "K wide rows (1..16 columns, one note walked)"
        for cols in range(1, 17):
            for c in range(cols):
                for cell in ("1", "M[3]", "2[10]", "K[1000]", "1[123456]"):
                    for pre in ("0", "1[9]"):
                        cells = [pre if (i < c and i == 0) else "0" for i in range(cols)]
                        cells[c] = cell
                        row = "".join(cells)
                        for nrows, r in ((1, 0), (3, 2), (4, 1)):
                            rows = ["0" * cols] * nrows
                            rows[r] = row
                            sections = [[rows, ["0" * cols]]]
                            text = N.render(sections)
                            core.guard_cheap(acc, {"kind": "text", "text": text})
                            fails = check_text(text, N.intended_notes(sections), cols, deep=True)
                            acc.count("evaluations")
                            acc.count("states")
                            acc.count("transitions")
                            acc.count("nontrivial")
                            if cols == 16:
                                acc.outcome("sixteen columns")
                            if fails:
                                report(acc, layer, {"kind": "text", "text": text}, fails)
        # every cell of the row keysounded, with indices of 1 .. 6 digits (rows of up to 16 x 9 characters)
        for cols in range(1, 17):
            for ks in ("[7]", "[10]", "[100]", "[1000]", "[123456]"):
                for nrows, r in ((1, 0), (4, 0), (4, 3)):
                    rows = ["0" * cols] * nrows
                    rows[r] = "".join("124MLFK"[i % 7] + ks for i in range(cols))
                    sections = [[rows, ["0" * cols]]]
                    text = N.render(sections)
                    core.guard_cheap(acc, {"kind": "text", "text": text})
                    fails = check_text(text, N.intended_notes(sections), cols, deep=True)
                    acc.count("evaluations")
                    acc.count("states")
                    acc.count("transitions")
                    acc.count("nontrivial")
                    acc.outcome("row in which every cell carries a keysound")
                    if fails:
                        report(acc, layer, {"kind": "text", "text": text}, fails)
        acc.sample(layer, {"text": text})
    elif kind == "P":
        _, pidx = shard
        layer = "P ordering operators"
        notes = pair_notes()
        a = notes[pidx]
        for b in notes:
            if M.position(a) == M.position(b) and a != b:
                continue  # two different notes in one cell: outside the domain
            core.guard_cheap(acc, {"kind": "pair", "a": fmt(a), "b": fmt(b)})
            fails = check_pair(a, b)
            acc.count("evaluations")
            acc.count("transitions")
            if a[3] != b[3]:
                acc.outcome("pair across players")
                acc.count("nontrivial")
            if fails:
                report(acc, layer, {"kind": "pair", "a": fmt(a), "b": fmt(b)}, fails)
        acc.count("states")
        # sorted/min/max on triples containing a
        positions = pair_positions()
        pa = positions[pidx % len(positions)]
        for pb, pc in itertools.combinations(positions, 2):
            if pa in (pb, pc):
                continue
            trip = [(pa[1], pa[2], "1", pa[0], None), (pb[1], pb[2], "M", pb[0], None), (pc[1], pc[2], "2", pc[0], 4)]
            if pidx >= len(positions):
                trip = [trip[2], trip[0], trip[1]]
            fails = check_triple(trip)
            acc.count("evaluations")
            if fails:
                report(acc, layer, {"kind": "triple", "notes": [fmt(n) for n in trip]}, fails)
        acc.sample(layer, {"a": fmt(a), "b": fmt(notes[-1])})
    elif kind == "corpus":
        _, idx = shard
        name, sf, chart = N.corpus_charts()[idx]
        text = chart.notes
        core.guard(acc, {"kind": "corpus", "chart": name})
        fails = check_text(text, deep=False)
        acc.count("evaluations")
        acc.count("states")
        acc.count("nontrivial")
        acc.count("corpus_charts")
        if fails:
            report(acc, "corpus", {"kind": "corpus", "chart": name}, fails)
        acc.sample("corpus", {"chart": name, "chars": len(text)})


def pair_positions():
    return [(p, b, c) for p in (0, 1, 2) for b in (Fraction(0), Fraction(1, 3), Fraction(1), Fraction(65, 64), Fraction(97, 96), Fraction(4)) for c in (0, 1, 2)]


def pair_notes():
    out = []
    for (p, b, c) in pair_positions():
        out.append((b, c, "1", p, None))
    for (p, b, c) in pair_positions():
        out.append((b, c, "M", p, 7))
    return out


def explore(run):
    shards = []
    max_cells = 8 if run.thorough() else 6
    for cols, rows in grid_shapes(max_cells):
        for first in GRID_ALPHABET:
            shards.append(("G", cols, rows, first))
    for ncols in (1, 2, 3, 4):
        shards.append(("G9", ncols))
    shapes = N.format_shapes(run.thorough())
    chunk = 4 if not run.thorough() else 24
    for i in range(0, len(shapes), chunk):
        shards.append(("F", shapes[i:i + chunk], run.thorough()))
    for first in N.KS_CELLS:
        shards.append(("K", first))
    shards.append(("W",))
    shards.append(("R",))
    for i in range(len(pair_notes())):
        shards.append(("P", i))
    shards += [("corpus", i) for i in range(len(N.corpus_charts()))]
    k = run.seed % len(shards)
    shards = shards[k:] + shards[:k]
    run.merge(core.pmap(explore_shard, shards, run.seed))
    acc = run.acc
    acc.layer("G cell grids", max_cells=max_cells, shapes=len(grid_shapes(max_cells)), alphabet=list(GRID_ALPHABET), exhaustive=True)
    acc.layer("F format variation", shapes=len(shapes), styles=len(N.format_styles()), players=[1, 2, 3], exhaustive=True)
    run.rule = (
        f"G: every grid of <= {max_cells} cells (1-4 columns, 1-2 measures, 1-4 rows per measure) over 0,1,2,3,M and every row of <=4 cells over all nine note characters; "
        "F: rows-per-measure shapes over {1,2,3,4,5,8,12,16,24,32,48,64,192} (all singles and pairs"
        + (", all triples" if run.thorough() else ", selected triples")
        + ") x 1-3 players x 108 formatting styles; K: all 8^4 rows over plain/bracketed cells x position x players, 1-16 columns with a walked note; "
        "P: all ordered pairs of 72 notes under six operators, sorted/min/max on triples; corpus charts. "
        "A state is a distinct text (or note pair); non-trivial = at least two notes / a bracket / several players."
    )
    run.assumptions = [
        "mc/models/notes.py read_notedata is the independent reading of 'one note per non-zero cell'",
        "texts are well-formed: no blank line inside a measure, known note characters only",
    ]
    core.require(acc.outcomes["three player sections"] > 0, "no three-player text")
    core.require(acc.outcomes["CRLF text"] > 0, "no CRLF text")
    core.require(acc.outcomes["keysounded cell"] > 0, "no keysound")
    core.require(acc.outcomes["note data longer than 2^20 characters"] > 0, "no megabyte text")
    core.require(acc.outcomes["row in which every cell carries a keysound"] > 0, "no fully keysounded row")
    core.require(acc.outcomes["indented keysounded row that is not the first of its measure"] > 0, "no indented keysounded row")
    core.require(acc.outcomes["sixteen columns"] > 0, "no 16-column row")
    core.require(acc.outcomes["pair across players"] > 0, "no cross-player pair")
    return run.finish(
        states=acc.c["states"],
        transitions=acc.c["transitions"],
        evaluations=acc.c["evaluations"],
        distinct_nontrivial=acc.c["nontrivial"],
    )
