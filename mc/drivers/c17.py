"""
C17 - SSC to SM conversion applies the caller's policy to every SSC-only property.

Product enumeration: every SSC-only property (simfile and chart level) x value state
{absent, empty, default, default padded with blanks, non-default} x behaviour
mappings (all 5^5 in thorough; own kind x 5 patterns for the others, plus the full
5^5 for one property per kind, in quick); ordered pairs of properties for the
'first offending property' clause; templates; corpus SSC files x all 4^5 full
mappings; round trip ssc_to_sm(sm_to_ssc(sm)).
"""
import copy
import itertools
import os

from .. import core
from ..models import convert as MC
from ..models import msd as M
from . import text_common as X
from . import c16

from simfile.convert import (  # noqa: E402
    InvalidPropertyBehavior,
    InvalidPropertyException,
    PropertyType,
    sm_to_ssc,
    ssc_to_sm,
)

SMSimfile, SSCSimfile, SMChart, SSCChart = X.SMSimfile, X.SSCSimfile, X.SMChart, X.SSCChart
LEVEL = "model_checking"

PT = {k: getattr(PropertyType, k) for k in MC.KINDS}
BH = {b: getattr(InvalidPropertyBehavior, b) for b in MC.BEHAVIORS}
STATES = ("absent", "empty", "default", "padded", "padded40", "nondefault", "nondefault2")
NONDEFAULT2 = {"VERSION": "0.69", "WARPS": "16.000=0.000", "BPMS": "0.000=0.000", "STOPS": "1.000=0", "COMBOS": "0.000=1,\n4.000=1", "LABELS": "0.000=song start", "SCROLLS": "0.000=1.0000"}
NONDEFAULT = {
    "VERSION": "0.83", "WARPS": "4.000=1.000", "BPMS": "0.000=99.000", "STOPS": "1.000=0.500", "DELAYS": "2.000=0.250", "OFFSET": "0.123",
    "TIMESIGNATURES": "0.000=3=4", "TICKCOUNTS": "0.000=8", "COMBOS": "0.000=2", "SPEEDS": "0.000=2.000=1.000=0", "SCROLLS": "0.000=0.500",
    "LABELS": "0.000=Intro", "ATTACKS": "TIME=1:LEN=2:MODS=drunk", "DISPLAYBPM": "150", "FAKES": "1.000=1.000",
}


def value_for(prop, state):
    d = MC.default_of(prop)
    if state == "absent":
        return None
    if state == "empty":
        return ""
    if state == "default":
        return d
    if state == "padded":
        return "\n " + d + " \n"
    if state == "padded40":
        return " " * 40 + d + "\t" * 40  # trimming has no bound
    if state == "nondefault2":
        return NONDEFAULT2.get(prop, "another value")
    return NONDEFAULT.get(prop, "x.png" if MC.SIMFILE_KIND.get(prop) == MC.FILE_PATH else "nd")


def build_source(sim_props, chart_props, ncharts=1, with_version=False):
    """sim_props / chart_props: ordered list of (key, value). Returns (model items, model charts, object)."""
    items = [("TITLE", "t")] + ([("VERSION", "0.83")] if with_version else []) + [("BPMS", "0.000=120.000")]
    items = items[:1] + list(sim_props) + items[1:]
    charts = []
    for i in range(ncharts):
        if i % 2 == 0:
            c = [("STEPSTYPE", "dance-single"), ("DESCRIPTION", f"d{i}")] + list(chart_props) + [("DIFFICULTY", "Easy"), ("METER", "3"), ("RADARVALUES", "0,0"), ("NOTES", "0000\n0000")]
        else:
            # SSC chart values are free text: blanks at the edges must be copied as they are
            c = [("STEPSTYPE", " dance-single"), ("DESCRIPTION", f"\td{i} \n")] + list(chart_props) + [("DIFFICULTY", "Easy "), ("METER", " 3"), ("RADARVALUES", "0,0\u3000"), ("NOTES", "\n0000\n0000\n")]
        charts.append(c)
    sf = SSCSimfile(string="")
    for k, v in items:
        sf[k] = v
    for c in charts:
        ch = SSCChart()
        for k, v in c:
            ch[k] = v
        sf.charts.append(ch)
    return items, charts, sf


def sm_sim_template(kind):
    if kind == "none":
        return None
    if kind == "empty":
        return SMSimfile(string="")
    t = SMSimfile.blank()
    if kind == "edited":
        t["TITLE"] = "tpl"
        t["EXTRA"] = "e"
    if kind == "withchart":
        c = SMChart.blank()
        c.description = "template chart"
        t.charts.append(c)
    return t


def sm_chart_template(kind):
    if kind == "none":
        return None
    if kind == "empty":
        return SMChart()
    c = SMChart.blank()
    if kind == "edited":
        c.description = "tpl"
        c.meter = "99"
    return c


def mapping_obj(mapping):
    return {PT[k]: BH[v] for k, v in mapping.items()}


def check_conversion(items, charts, sf, mapping, st_kind="none", ct_kind="none"):
    fails = []

    def fail(clause, expected, observed):
        fails.append({"clause": clause, "expected": core.jsonable(expected), "observed": core.jsonable(observed)})

    w = dict(items).get("WARPS")
    if w is not None and w != "" and not w.strip():
        return "not-claimed"  # a blank-only simfile WARPS value is not claimed either way
    st, ct = sm_sim_template(st_kind), sm_chart_template(ct_kind)
    before = (X.observe(sf), X.observe(st) if st is not None else None, (list(dict.items(ct)), ct.extradata) if ct is not None else None)
    kwargs = {}
    if st is not None:
        kwargs["simfile_template"] = st
    if ct is not None:
        kwargs["chart_template"] = ct
    if mapping is not None:
        kwargs["invalid_property_behaviors"] = mapping_obj(mapping)
    tpl = st if st is not None else SMSimfile.blank()
    ctpl = ct if ct is not None else SMChart.blank()
    tobs = X.observe(tpl)
    ct_fields = [dict.get(ctpl, k) for k in M.SM_FIELDS]
    try:
        want_items, want_charts = MC.ssc_to_sm(items, charts, mapping or {}, tobs["items"], [c["fields"] for c in tobs["charts"]], ct_fields)
        want = ("ok", want_items, want_charts)
    except MC.Raises as r:
        if r.kind == "KeyError-known-finding":
            return None  # outside the domain (tracked as a known finding)
        want = ("exc", r.kind, r.prop)
    try:
        res = ssc_to_sm(sf, **kwargs)
        out = ("ok", res)
    except core.WatchdogTimeout:
        raise
    except BaseException as e:
        out = ("exc", type(e).__name__, str(e))
    after = (X.observe(sf), X.observe(st) if st is not None else None, (list(dict.items(ct)), ct.extradata) if ct is not None else None)
    if after != before:
        fail("the source or a supplied template was modified by the conversion", "unchanged", "changed")
    if want[0] == "exc":
        if out[0] != "exc":
            fail("conversion returned a result although the policy refuses a property", want, "SMSimfile returned")
        elif out[1] != want[1]:
            fail("conversion failed with another exception than the documented one", want[1], out[1:])
        elif want[1] == "InvalidPropertyException" and repr(want[2]) not in out[2]:
            fail("InvalidPropertyException does not name the first offending property", want[2], out[2])
        return fails
    if out[0] != "ok":
        fail("conversion raised although the policy accepts every property", "SMSimfile", out)
        return fails
    if type(res) is not SMSimfile:
        fail("result is not an SMSimfile", "SMSimfile", type(res).__name__)
        return fails
    got = X.observe(res)
    if dict(got["items"]) != dict(want_items) or len(got["items"]) != len(want_items):
        keys = set(dict(got["items"])) | set(dict(want_items))
        bad = {k: (dict(got["items"]).get(k, "<absent>"), dict(want_items).get(k, "<absent>")) for k in keys if dict(got["items"]).get(k, "<absent>") != dict(want_items).get(k, "<absent>")}
        fail("result properties do not obey the behaviour mapping (copied / left out)", {k: v[1] for k, v in bad.items()}, {k: v[0] for k, v in bad.items()})
    gc = [c["fields"] for c in got["charts"]]
    if gc != want_charts or any(c["keys"] != list(M.SM_FIELDS) for c in got["charts"]):
        fail("charts of the result are not the source's charts (six fields, in order, after the template's)", want_charts, gc)
    # no sharing with source / templates
    theirs = [id(sf.charts)] + [id(c) for c in sf.charts]
    if st is not None:
        theirs += [id(st), id(st.charts)] + [id(c) for c in st.charts]
    if ct is not None:
        theirs.append(id(ct))
    if set([id(res), id(res.charts)] + [id(c) for c in res.charts]) & set(theirs):
        fail("the result shares a mutable object with the source or a template", "disjoint", "shared")
    return fails


def check_single(level, prop, state, mapping, st_kind="none", ct_kind="none"):
    v = value_for(prop, state)
    sim_props = [(prop, v)] if level == "simfile" and v is not None else []
    chart_props = [(prop, v)] if level == "chart" and v is not None else []
    items, charts, sf = build_source(sim_props, chart_props, ncharts=2)
    return check_conversion(items, charts, sf, mapping, st_kind, ct_kind)


def check_pair(p1, s1, p2, s2, mapping, level="simfile"):
    v1, v2 = value_for(p1, s1), value_for(p2, s2)
    props = [(p, v) for p, v in ((p1, v1), (p2, v2)) if v is not None]
    if level == "simfile":
        items, charts, sf = build_source(props, [])
    elif level == "chart":
        items, charts, sf = build_source([], props, ncharts=2)
    else:  # first on the simfile, second on the chart
        items, charts, sf = build_source(props[:1] if v1 is not None else [], props[-1:] if v2 is not None else [])
    return check_conversion(items, charts, sf, mapping)


def check_roundtrip(opt_idx, mand, chart_list, rotate):
    """ssc_to_sm(sm_to_ssc(sm)) equals sm on every original property and chart."""
    model = c16.source_model(opt_idx, mand, chart_list, rotate)
    src = X.build_object(model)
    try:
        back = ssc_to_sm(sm_to_ssc(src))
    except core.WatchdogTimeout:
        raise
    except BaseException as e:
        return [{"clause": "converting an SM simfile to SSC and back raised", "expected": "SMSimfile", "observed": f"{type(e).__name__}: {e}"}]
    fails = []
    got = X.observe(back)
    d = dict(got["items"])
    for k, v in model["items"]:
        if d.get(k, "<absent>") != v:
            fails.append({"clause": "SM -> SSC -> SM changes an original property", "expected": [k, v], "observed": [k, d.get(k, "<absent>")]})
            break
    if [c["fields"] for c in got["charts"]] != [c["fields"] for c in model["charts"]]:
        fails.append({"clause": "SM -> SSC -> SM changes the charts", "expected": [c["fields"] for c in model["charts"]], "observed": [c["fields"] for c in got["charts"]]})
    return fails


def check_case(case):
    k = case["kind"]
    if k == "single":
        r = check_single(case["level"], case["prop"], case["state"], case["mapping"], case.get("sim_template", "none"), case.get("chart_template", "none"))
        return r if isinstance(r, list) else []
    if k == "pair":
        r = check_pair(case["p1"], case["s1"], case["p2"], case["s2"], case["mapping"], case.get("level", "simfile"))
        return r if isinstance(r, list) else []
    if k == "roundtrip":
        return check_roundtrip(case["optional"], case["mandatory"], case["charts"], case["rotate"])
    if k == "lookalike":
        items, charts, sf = build_source([(case["key"], "x")], [])
        r = check_conversion(items, charts, sf, case["mapping"])
        return r if isinstance(r, list) else []
    if k == "corpus":
        r = check_corpus(case["file"], case["mapping"])
        return r if isinstance(r, list) else []
    if k == "chartkey":
        return probe(case) and [{"clause": probe(case)}] or []
    raise core.MachineryError("unknown case")


def all_mappings():
    opts = (None,) + MC.BEHAVIORS
    for combo in itertools.product(opts, repeat=5):
        yield {k: v for k, v in zip(MC.KINDS, combo) if v is not None}


def reduced_mappings(kind):
    """own kind: unspecified or each behaviour; the other kinds: all unspecified or all set to one behaviour."""
    out = []
    for own in (None,) + MC.BEHAVIORS:
        for others in (None,) + MC.BEHAVIORS:
            m = {}
            for k in MC.KINDS:
                v = own if k == kind else others
                if v is not None:
                    m[k] = v
            out.append(m)
    return out


def pair_mappings(k1, k2):
    out = []
    for a in (None,) + MC.BEHAVIORS:
        for b in (None,) + MC.BEHAVIORS:
            m = {}
            if a is not None:
                m[k1] = a
            if b is not None and k2 != k1:
                m[k2] = b
            if m not in out:
                out.append(m)
    return out


_CORPUS = {}


def corpus_source(rel):
    if rel not in _CORPUS:
        path = os.path.join(core.SRC, "testdata", rel)
        sf = X.simfile.open(path)
        sf.charts = list(sf.charts)[:4]
        for ch in sf.charts:
            ch.notes = ",".join(ch.notes.split(",")[:2]).strip()
        o = X.observe(sf)
        _CORPUS[rel] = ([tuple(i) for i in o["items"]], [[tuple(i) for i in c["items"]] for c in o["charts"]], sf)
    return _CORPUS[rel]


def check_corpus(rel, mapping):
    items, charts, sf = corpus_source(rel)
    return check_conversion(items, charts, copy.deepcopy(sf), mapping)


def tally(acc, layer, case, fails):
    acc.count("evaluations")
    if fails is None:
        acc.count("excluded_chart_key_copy (known finding)")
        return
    if fails == "not-claimed":
        acc.count("excluded_not_claimed")
        return
    acc.count("conversions_judged")
    for f in fails:
        acc.violation(f["clause"], case, f["expected"], f["observed"], signature=(f["clause"], layer))


def explore_shard(acc, shard):
    kind = shard[0]
    if kind == "single":
        _, level, prop, full = shard
        table = MC.SIMFILE_KIND if level == "simfile" else MC.CHART_KIND
        pkind = table[prop]
        layer = "single property x state x mapping"
        mappings = list(all_mappings()) if full else reduced_mappings(pkind)
        case = None
        for state in STATES:
            acc.count("states")
            for mp in mappings + [None]:
                case = {"kind": "single", "level": level, "prop": prop, "state": state, "mapping": mp}
                core.guard_cheap(acc, case)
                fails = check_single(level, prop, state, mp)
                acc.count("transitions")
                tally(acc, layer, case, fails)
                if state in ("padded", "default") and MC.default_of(prop):
                    acc.outcome("non-empty default value compared")
                if state != "absent":
                    acc.count("nontrivial")
        acc.sample(layer, case)
    elif kind == "pair":
        _, level, p1 = shard
        layer = "ordered pairs (first offending property)"
        t1 = MC.SIMFILE_KIND if level in ("simfile", "mixed") else MC.CHART_KIND
        t2 = MC.SIMFILE_KIND if level == "simfile" else MC.CHART_KIND
        case = None
        for p2 in t2:
            if p2 == p1 and level != "mixed":
                continue
            # for VERSION also a value below the split-timing version 0.7 (what the chart may carry does not depend on it)
            for s1, s2 in itertools.product(("empty", "default", "nondefault") + (("nondefault2",) if p1 == "VERSION" else ()), ("empty", "default", "nondefault")):
                acc.count("states")
                for mp in pair_mappings(t1[p1], t2[p2]):
                    case = {"kind": "pair", "level": level, "p1": p1, "s1": s1, "p2": p2, "s2": s2, "mapping": mp}
                    core.guard_cheap(acc, case)
                    fails = check_pair(p1, s1, p2, s2, mp, level)
                    acc.count("transitions")
                    tally(acc, layer, case, fails)
                    acc.count("nontrivial")
        if case:
            acc.sample(layer, case)
    elif kind == "lookalike":
        # simfile-level keys that merely resemble an SSC-only property name (blanks at the edges, another letter case):
        # they are other keys and are copied like any unknown key, whatever the policy
        layer = "keys that resemble SSC-only property names"
        case = None
        for prop in MC.SIMFILE_KIND:
            for key in (prop + " ", " " + prop, prop.lower(), prop.title(), prop + "S", "X" + prop, prop[:-1], prop[1:], prop[0], prop[-1], prop[1:3], ""):
                if key in MC.SIMFILE_KIND:
                    continue
                for mp in (None, {k: MC.ERROR for k in MC.KINDS}, {k: MC.IGNORE for k in MC.KINDS}):
                    case = {"kind": "lookalike", "key": key, "mapping": mp}
                    core.guard_cheap(acc, case)
                    items, charts, sf = build_source([(key, "x")], [])
                    fails = check_conversion(items, charts, sf, mp)
                    acc.count("states")
                    acc.count("transitions")
                    tally(acc, layer, case, fails)
                    acc.count("nontrivial")
                    acc.outcome("key resembling an SSC-only property")
        acc.sample(layer, case)
    elif kind == "templates":
        layer = "templates"
        case = None
        for level, prop in (("simfile", "ORIGIN"), ("simfile", "COMBOS"), ("chart", "CREDIT"), ("chart", "TICKCOUNTS")):
            for state in STATES:
                for st in ("none", "empty", "blank", "edited", "withchart"):
                    for ct in ("none", "empty", "blank", "edited"):
                        for mp in (None, {}, {MC.GAMEPLAY: MC.IGNORE}, {MC.METADATA: MC.COPY, MC.GAMEPLAY: MC.ERROR}):
                            case = {"kind": "single", "level": level, "prop": prop, "state": state, "mapping": mp, "sim_template": st, "chart_template": ct}
                            core.guard_cheap(acc, case)
                            fails = check_single(level, prop, state, mp, st, ct)
                            acc.count("states")
                            acc.count("transitions")
                            tally(acc, layer, case, fails)
                            acc.count("nontrivial")
                            if st == "empty" or ct == "empty":
                                acc.outcome("empty caller template")
        acc.sample(layer, case)
    elif kind == "corpus":
        _, rel, first = shard
        layer = "corpus x full mappings"
        case = None
        for rest in itertools.product(MC.BEHAVIORS, repeat=4):
            mp = dict(zip(MC.KINDS, (first,) + rest))
            case = {"kind": "corpus", "file": rel, "mapping": mp}
            core.guard_cheap(acc, case)
            fails = check_corpus(rel, mp)
            acc.count("states")
            acc.count("transitions")
            tally(acc, layer, case, fails)
            acc.count("nontrivial")
            acc.count("corpus_conversions")
        acc.sample(layer, case)
    elif kind == "roundtrip":
        _, first, max_opt = shard
        layer = "round trip SM -> SSC -> SM"
        # properties that only the SSC format has are refused on the way back by the default policy: not part of this clause
        ssc_only = set(MC.SIMFILE_KIND)
        allowed = [i for i, (k, _) in enumerate(c16.OPTIONAL) if k not in ssc_only and _ is not None]

        if first is None:
            _roundtrip_subtree(acc, [], allowed, 0)
        elif first in allowed:
            acc.count("transitions")
            _roundtrip_subtree(acc, [first], allowed, max_opt)
        acc.sample(layer, {"first": first, "max_optional": max_opt})


def _roundtrip_subtree(acc, opt_idx, allowed, max_opt):
    for mand in itertools.product((0, 1), repeat=3):
        for cl in c16.CHART_LISTS:
            case = {"kind": "roundtrip", "optional": list(opt_idx), "mandatory": list(mand), "charts": cl, "rotate": len(opt_idx) % 3}
            core.guard_cheap(acc, case)
            fails = check_roundtrip(opt_idx, mand, cl, case["rotate"])
            acc.count("evaluations")
            acc.count("roundtrips")
            acc.count("nontrivial")
            for f in fails:
                acc.violation(f["clause"], case, f["expected"], f["observed"], signature=(f["clause"],))
    acc.count("states")
    if len(opt_idx) < max_opt:
        for j in allowed:
            if not opt_idx or j > opt_idx[-1]:
                acc.count("transitions")
                _roundtrip_subtree(acc, opt_idx + [j], allowed, max_opt)


def probe(p):
    """Known findings: chart keys the SM chart cannot hold end in a bare KeyError."""
    if p["kind"] == "chartkey":
        items, charts, sf = build_source([], [(p["key"], p["value"])])
        try:
            ssc_to_sm(sf, invalid_property_behaviors=mapping_obj(p.get("mapping", {})))
        except KeyError as e:
            return f"bare KeyError {e}"
        except (InvalidPropertyException, NotImplementedError):
            return None
        return None
    return None


def explore(run):
    run.run_probes(probe)
    shards = []
    full_props = {("simfile", "VERSION"), ("simfile", "ORIGIN"), ("simfile", "JACKET"), ("simfile", "COMBOS"), ("simfile", "WARPS"), ("chart", "ATTACKS"), ("chart", "BPMS"), ("chart", "LABELS")}
    for level, table in (("simfile", MC.SIMFILE_KIND), ("chart", MC.CHART_KIND)):
        for prop in table:
            shards.append(("single", level, prop, run.thorough() or (level, prop) in full_props))
    for p1 in MC.SIMFILE_KIND:
        shards.append(("pair", "simfile", p1))
        if run.thorough():
            shards.append(("pair", "mixed", p1))
    if run.thorough():
        for p1 in MC.CHART_KIND:
            shards.append(("pair", "chart", p1))
    else:
        for p1 in ("CREDIT", "ATTACKS", "BPMS", "OFFSET"):
            shards.append(("pair", "chart", p1))
        for p1 in ("VERSION", "COMBOS", "JACKET"):
            shards.append(("pair", "mixed", p1))
    shards.append(("templates",))
    shards.append(("lookalike",))
    for rel in ("Springtime/Springtime.ssc", "L9/L9.ssc"):
        if os.path.exists(os.path.join(core.SRC, "testdata", rel)):
            for first in MC.BEHAVIORS:
                shards.append(("corpus", rel, first))
    max_opt = 3 if run.thorough() else 2
    shards.append(("roundtrip", None, 0))
    for i in range(len(c16.OPTIONAL)):
        shards.append(("roundtrip", i, max_opt))
    k = run.seed % len(shards)
    shards = shards[k:] + shards[:k]
    run.merge(core.pmap(explore_shard, shards, run.seed))
    acc = run.acc
    run.extra = {"conversions_judged": int(acc.c["conversions_judged"]), "excluded_chart_key_copy": int(acc.c["excluded_chart_key_copy (known finding)"]), "roundtrips": int(acc.c["roundtrips"])}
    run.rule = (
        f"every SSC-only property ({len(MC.SIMFILE_KIND)} simfile-level, {len(MC.CHART_KIND)} chart-level) x {STATES} x "
        + ("all 5^5 behaviour mappings (each kind unspecified or one of 4)" if run.thorough() else "25 mappings (own kind x pattern for the others); all 5^5 for 8 representative properties")
        + "; ordered pairs of properties x 3x3 states x the mappings over their kinds (first offending property); templates (5 simfile x 4 chart) on 4 properties; corpus SSC files x all 4^5 full mappings; "
        f"round trip ssc_to_sm(sm_to_ssc(sm)) over the C16 source tree (<= {max_opt} optional properties, no SSC-only keys). "
        "Combinations that would copy a chart key the SM chart cannot hold are excluded (known finding) and counted. Non-trivial = property present."
    )
    run.assumptions = [
        "the kind of each property, the default behaviours and the default values are pinned from the library's tables (mc/models/convert.py); the algorithm is the statement's",
        "WARPS: absent, empty or a well-formed non-empty list (a blank-only value is not claimed)",
    ]
    core.require(acc.outcomes["key resembling an SSC-only property"] > 0, "no look-alike keys")
    core.require(acc.c["conversions_judged"] > 1000, "too few conversions")
    core.require(acc.outcomes["non-empty default value compared"] > 0, "no non-empty default compared")
    core.require(acc.outcomes["empty caller template"] > 0, "no empty template")
    core.require(acc.c["roundtrips"] > 0, "no round trips")
    core.require(acc.c["corpus_conversions"] > 0, "no corpus conversions")
    return run.finish(
        states=acc.c["states"],
        transitions=acc.c["transitions"],
        evaluations=acc.c["evaluations"],
        distinct_nontrivial=acc.c["nontrivial"],
    )
