"""
C12 - time -> beat conversion inverts beat -> time on the tick grid.

Same timeline space as C11 (event sets on 4-point grids, built event by event) plus a
"shifted" grid that leaves room for redundant BPM changes before the first event.
Asked times: the engine's own time_at(beat, tag) for every probe beat and tag (the
exact boundary cases), three times strictly inside every pause, mid-points between
consecutive event times, one before and one after all events.
"""
from fractions import Fraction

from .. import core
from ..models import timeline as T
from . import timing_common as TC

LEVEL = "model_checking"
OFFSETS = (Fraction(0), Fraction(-1, 4))
EPS = 1e-9
MARGIN = Fraction(1, 10**9)  # float times within 1e-9 of a pause edge are boundary cases, not "inside"


def asked_times(model, engine, beats):
    """(time float, kind) list, sorted by time, de-duplicated."""
    ts = {}
    origin = {}
    for b in beats:
        ib = TC.to_beat(b)
        for tag in TC.TAGS:
            t = float(engine.time_at(ib, tag))
            exact = Fraction(t) == model.time_at(b, int(tag))
            prev = ts.get(t)
            ts[t] = "boundary-exact" if exact or prev == "boundary-exact" else "boundary"
            origin.setdefault(t, (b, tag))
    for p in model.points:
        if model.has_pause(p):
            a, d = model.arrive(p), model.depart(p)
            for f in (Fraction(1, 4), Fraction(1, 2), Fraction(7, 8)):
                ts.setdefault(float(a + (d - a) * f), "inside-pause")
            # a delay followed by a stop on the same beat: also inside each part
            if p in model.delays and p in model.stops:
                mid = a + model.delays[p]
                ts.setdefault(float(a + (mid - a) / 2), "inside-pause")
                ts.setdefault(float(mid + (d - mid) / 2), "inside-pause")
    ev = model.event_times()
    for x, y in zip(ev, ev[1:]):
        # not the mid-point: between events one tick apart that is an exact rounding tie
        ts.setdefault(float(x + (y - x) / 3), "between")
        ts.setdefault(float(x + (y - x) * 4 / 5), "between")
    ts.setdefault(float(ev[0] - Fraction(3, 8)), "between")
    # before beat 0, not on a tick and not on a rounding tie (rounding of negative beats)
    for d in (Fraction(1, 7), Fraction(5, 9), Fraction(29, 13)):
        ts.setdefault(float(ev[0] - d), "between")
    ts.setdefault(float(ev[-1] + Fraction(5, 8)), "between")
    return [(t, k, origin.get(t)) for t, k in sorted(ts.items())]


def beat_answers(engine, times, own_boundary_times=False, reverse=False):
    """
    beat_at under every tag at every asked time.  With own_boundary_times, a boundary
    time is re-derived from this engine's own time_at(beat, tag) (it may differ by an
    ulp from the other engine's), the answers are still keyed by the original time.
    """
    out = {}
    for t0, _, org in (reversed(times) if reverse else times):
        t = t0
        if own_boundary_times and org is not None:
            t = float(engine.time_at(TC.to_beat(org[0]), org[1]))
            if abs(t - t0) > EPS:
                continue  # the time itself differs: C11's business, not comparable here
        if reverse:
            out[(t0, "default")] = engine.beat_at(t)
        for tag in (reversed(TC.TAGS) if reverse else TC.TAGS):
            out[(t0, int(tag))] = engine.beat_at(t, tag)
        if not reverse:
            out[(t0, "default")] = engine.beat_at(t)
    return out


NQ = [0]  # number of beat_at queries made by the last check_timeline call


def check_timeline(tl, beats, extra_sets=()):
    fails = []
    NQ[0] = 0

    def fail(clause, expected, observed, **kw):
        fails.append({"clause": clause, "expected": core.jsonable(expected), "observed": core.jsonable(observed), **kw})

    try:
        model, engine = TC.build(tl)
        times = asked_times(model, engine, beats)
        ans = beat_answers(engine, times)
        NQ[0] += len(ans)
        back = beat_answers(engine, times, reverse=True)
        NQ[0] += len(back)
        # the timing data is an input: a second engine built from the very same object answers the same
        snap = TC.timing_snapshot(engine.timing_data)
        second = beat_answers(TC.TimingEngine(engine.timing_data), times[:: max(1, len(times) // 12)])
        NQ[0] += len(second)
        d2 = [k for k in second if second[k] != ans[k]]
        if d2:
            fail("a second engine built from the same timing data object answers differently", str(ans[d2[0]]), str(second[d2[0]]), time=d2[0][0], tag=str(d2[0][1]))
        if TC.timing_snapshot(engine.timing_data) != snap:
            fail("building / querying an engine modified the caller's timing data", "unchanged", "changed")
        diff = [k for k in ans if back[k] != ans[k]]
        if diff:
            k = diff[0]
            fail("an answer depends on the order in which the engine was queried", str(ans[k]), str(back[k]), time=k[0], tag=str(k[1]))
    except core.WatchdogTimeout:
        raise
    except Exception as e:
        fail("building or querying the engine raised", "answers", f"{type(e).__name__}: {e}")
        return fails
    h = Fraction(1, 96) * 60 / model.slowest + Fraction(1, 10**9)
    # a. round trip on tick-aligned beats that no warp skips over
    for b in beats:
        if b.denominator > 48 or 48 % b.denominator:
            continue
        if model.in_warp(b) and b not in model.stops:
            continue
        ib = TC.to_beat(b)
        try:
            back = engine.beat_at(engine.time_at(ib))
        except core.WatchdogTimeout:
            raise
        except Exception as e:
            back = f"{type(e).__name__}: {e}"
        if back != b:
            fail("beat_at(time_at(b)) is not b for a tick-aligned beat no warp skips", str(b), str(back), beat=str(b))
            break
    # a'. the same under the WARP tag on both sides, for beats that are alone at their times (no warp starts,
    #     covers or ends there): the stretch that elapses at time_at(b, WARP) starts at b itself
    for b in beats:
        if b.denominator > 48 or 48 % b.denominator:
            continue
        if model.stretch_start(model.arrive(b)) != b or model.furthest_beat(model.depart(b)) != b:
            continue
        ib = TC.to_beat(b)
        try:
            back = engine.beat_at(engine.time_at(ib, TC.EventTag.WARP), TC.EventTag.WARP)
        except core.WatchdogTimeout:
            raise
        except Exception as e:
            back = f"{type(e).__name__}: {e}"
        NQ[0] += 1
        if back != b:
            fail("beat_at(time_at(b, WARP), WARP) is not b for a tick-aligned beat that is alone at its time", str(b), str(back), beat=str(b))
            break
    seen = set()
    for t, kind, _org in times:
        ft = Fraction(t)
        dflt = ans[(t, "default")]
        if dflt != ans[(t, T.STOP)]:
            if "default-tag" not in seen:
                seen.add("default-tag")
                fail("default tag of beat_at is not STOP", str(ans[(t, T.STOP)]), str(dflt), time=t)
        # b. strictly inside a pause
        pb = model.paused_beat(ft, MARGIN)
        if pb is not None:
            for tag in T.TAGS:
                if ans[(t, tag)] != pb and "pause" not in seen:
                    seen.add("pause")
                    fail("inside a stop/delay the answer is not the paused beat", str(pb), str(ans[(t, tag)]), time=t, tag=T.TAG_NAMES[tag])
            continue
        # c. exact boundary times: WARP gives the start of the stretch, default the furthest beat
        if kind == "boundary-exact":
            bw, bd = model.stretch_start(ft), model.furthest_beat(ft)
            if 48 % bw.denominator == 0 and ans[(t, T.WARP)] != bw and "warp" not in seen:
                seen.add("warp")
                fail("at a boundary time the WARP tag does not give the beat where the stretch starts", str(bw), str(ans[(t, T.WARP)]), time=t)
            if 48 % bd.denominator == 0 and dflt != bd and "furthest" not in seen:
                seen.add("furthest")
                fail("at a boundary time the default tag does not give the furthest beat reached", str(bd), str(dflt), time=t)
        # d. every answer is tick-aligned and its own time lies within half a tick (widened by the pause)
        for tag in T.TAGS:
            r = ans[(t, tag)]
            fr = Fraction(r)
            if 48 % fr.denominator != 0:
                if "tick" not in seen:
                    seen.add("tick")
                    fail("answer is not tick-aligned", "multiple of 1/48", str(r), time=t, tag=T.TAG_NAMES[tag])
                continue
            if not (model.arrive(fr) - h <= ft <= model.depart(fr) + h) and "near" not in seen:
                seen.add("near")
                fail("the answer's own time is further than half a tick from the asked time",
                     [float(model.arrive(fr)), float(model.depart(fr))], t, answer=str(r), tag=T.TAG_NAMES[tag])
    # e. monotone per tag
    for tag in list(T.TAGS) + ["default"]:
        prev = None
        for t, _, _o in times:
            r = ans[(t, tag)]
            if prev is not None and r < prev[1]:
                fail("the answer decreases as time increases", str(prev[1]), str(r), time=t, earlier_time=prev[0], tag=str(tag))
                break
            prev = (t, r)
        else:
            continue
        break
    # f. independence from unrelated earlier (or later) redundant BPM changes
    for extra in extra_sets:
        tl2 = dict(tl)
        bpms = list(tl["bpms"])
        for fp in extra:
            bpms.append((fp, model.bpm(fp)))
        tl2["bpms"] = sorted(bpms)
        try:
            _, e2 = TC.build(tl2)
            a2 = beat_answers(e2, times, own_boundary_times=True)
            NQ[0] += len(a2)
        except core.WatchdogTimeout:
            raise
        except Exception as e:
            fail("engine with extra redundant BPM changes raised", "answers", f"{type(e).__name__}: {e}")
            break
        # exact rounding ties (asked time half-way between two ticks) may legitimately round either way
        diff = [(k, ans[k], a2[k]) for k in ans if k in a2 and a2[k] != ans[k] and not model.rounding_tie(Fraction(k[0]))]
        if diff:
            k, v1, v2 = diff[0]
            fail("the answer depends on how many unrelated redundant BPM changes the timing data holds",
                 str(v1), str(v2), time=k[0], tag=str(k[1]), inserted_at=[str(x) for x in extra])
            break
    return fails


def check_case(case):
    tl = TC.parse_tl(case["timeline"])
    beats = [Fraction(b) for b in case["beats"]]
    extra = [[Fraction(x) for x in s] for s in case.get("extra_sets", [])]
    return check_timeline(tl, beats, extra)


def explore_shard(acc, shard):
    kind = shard[0]
    if kind == "sets":
        _, grid, famname, first, max_events, seed = shard[:6]
        tiny = len(shard) > 6 and shard[6]
        fam = TC.family(famname, seed)
        evs = TC.all_events(grid, tiny)
        beats = TC.query_beats(grid)
        origin, step = TC.GRIDS[grid]
        layer = f"{grid} grid, {famname} values" + (", with a warp shorter than half a tick" if tiny else "")

        def visit(sel):
            events = tuple(evs[i] for i in sel)
            if not TC.compatible(events):
                return False
            bpm_points = {origin + g * step for g, k in events if k[0] == "b"}
            if grid == "shifted":
                # k = 1, 2, 3 redundant BPM changes on the ticks before the first event
                extra_sets = [[TC.TICK * (i + 1) for i in range(k)] for k in (1, 2, 3)]
            else:
                free = [origin + g * step for g in range(1, 4) if origin + g * step not in bpm_points]
                extra_sets = [[f] for f in free[:2]] + ([free[:2]] if len(free) >= 2 else [])
                extra_sets.append([origin + 8 * step])
            for off in OFFSETS:
                tl = TC.concretize(grid, events, fam, off)
                case = {"kind": "timeline", "timeline": TC.fmt_tl(tl), "beats": [str(b) for b in beats], "extra_sets": [[str(x) for x in s] for s in extra_sets]}
                core.guard_cheap(acc, case)
                fails = check_timeline(tl, beats, extra_sets if off == 0 else ())
                acc.count("states")
                acc.count("evaluations", NQ[0])
                if len(events) >= 2:
                    acc.count("nontrivial")
                for f in fails:
                    acc.violation(f["clause"], case, f["expected"], f["observed"], signature=(f["clause"],))
            if any(k == "W0" for g, k in events):
                acc.outcome("warp shorter than half a tick")
            kinds = {k[0] for g, k in events}
            if "W" in kinds and ("S" in kinds or "D" in kinds):
                acc.outcome("pause together with a warp")
            if "W" in kinds:
                acc.outcome("warp")
            if "S" in kinds and "D" in kinds:
                acc.outcome("stop and delay")
            return True

        def rec(sel):
            if not visit(sel):
                return
            if len(sel) < max_events:
                for j in range(sel[-1] + 1, len(evs)):
                    acc.count("transitions")
                    rec(sel + [j])

        if first is None:
            visit([])
            acc.layer(layer, events=len(evs), max_events=max_events, probe_beats=len(beats), offsets=len(OFFSETS), exhaustive=True)
        else:
            acc.count("transitions")
            rec([first])
            acc.sample(layer, {"grid": grid, "first_event": evs[first], "example": TC.fmt_tl(TC.concretize(grid, (evs[first],), fam))})
    elif kind == "special":
        _, idx, thorough = shard
        label, tl, beats = TC.special_timelines(thorough)[idx]
        layer = "X special timelines"
        case = {"kind": "timeline", "timeline": TC.fmt_tl(tl), "beats": [str(b) for b in beats], "extra_sets": [["3"]], "label": label}
        core.guard(acc, case)
        fails = check_timeline(tl, beats, [[Fraction(3)]])
        with core.decimal_precision(6):
            fails += [dict(f, clause=f["clause"] + " (decimal context precision 6)") for f in check_timeline(tl, beats, [])]
        acc.count("states")
        acc.count("transitions")
        acc.count("evaluations", NQ[0])
        acc.count("nontrivial")
        acc.outcome("special timeline (crowded warp / long warp / far out / many digits)")
        for f in fails:
            acc.violation(f["clause"], case, f["expected"], f["observed"], signature=(f["clause"], "special"))
        acc.sample(layer, {"label": label, "probe_beats": len(beats)})
    elif kind == "corpus":
        _, idx = shard
        name, tl, td = TC.corpus_timelines()[idx]
        tl = dict(tl, warps=[(b, Fraction(round(v * 48), 48)) for b, v in tl["warps"]])
        from simfile.timing.engine import TimingEngine
        model = T.Timeline(tl["bpms"], tl["stops"], tl["delays"], tl["warps"], tl["offset"])
        engine = TimingEngine(td)
        core.guard(acc, {"kind": "corpus", "name": name})
        pts = sorted(set(model.points) | {p + TC.TICK for p in model.points} | {p - TC.TICK for p in model.points if p > 0})
        n = 0
        for b in pts:
            if model.in_warp(b) and b not in model.stops:
                continue
            back = engine.beat_at(engine.time_at(TC.to_beat(b)))
            n += 1
            if back != b:
                acc.violation("beat_at(time_at(b)) is not b (corpus)", {"kind": "corpus", "name": name, "beat": str(b)}, str(b), str(back), signature=("corpus",))
        for p in model.points:
            if model.has_pause(p):
                t = float((model.arrive(p) + model.depart(p)) / 2)
                if model.paused_beat(Fraction(t)) == p:
                    n += 1
                    if engine.beat_at(t) != p:
                        acc.violation("inside a pause the answer is not the paused beat (corpus)", {"kind": "corpus", "name": name, "time": t}, str(p), str(engine.beat_at(t)), signature=("corpus-pause",))
        acc.count("states")
        acc.count("evaluations", n)
        acc.count("nontrivial")
        acc.count("corpus_timelines")
        acc.sample("corpus", {"name": name, "probe_beats": len(pts)})


def explore(run):
    shards = []
    plan = [("coarse", "dyadic", 3, 4), ("fine", "dyadic", 3, 4), ("shifted", "dyadic", 3, 4), ("coarse", "decimal", 2, 3), ("fine", "fast", 2, 3), ("coarse", "slow", 2, 3)]
    for grid, fam, q, t in plan:
        max_events = t if run.thorough() else q
        shards.append(("sets", grid, fam, None, max_events, run.seed))
        for i in range(len(TC.all_events(grid))):
            shards.append(("sets", grid, fam, i, max_events, run.seed))
    # warps whose positive length snaps to zero ticks, alone and together with 1 (thorough: <= 3) other events
    for i in range(4):
        shards.append(("sets", "coarse", "dyadic", i, 4 if run.thorough() else 2, run.seed, True))
    shards += [("corpus", i) for i in range(len(TC.corpus_timelines()))]
    shards += [("special", i, run.thorough()) for i in range(len(TC.special_timelines(run.thorough())))]
    k = run.seed % len(shards)
    shards = shards[k:] + shards[:k]
    run.merge(core.pmap(explore_shard, shards, run.seed))
    acc = run.acc
    run.rule = (
        "construction tree over event sets as in C11 (redundant/different BPM change, stop, delay, warp of 1-3 steps on 4 grid points); "
        + "; ".join(f"{g}/{f}: <= {(t if run.thorough() else q)} events" for g, f, q, t in plan)
        + f"; x offsets {[str(o) for o in OFFSETS]}; each state: beat_at under all 7 tags + default at every engine time_at(beat, tag) value of ~40 probe beats, 3-5 times inside every pause, mid-points between event times, before and after; "
        "independence transitions: 1..3 redundant BPM changes on the ticks before the first event (shifted grid), at free grid points and after the last event (other grids). "
        "Non-trivial = at least two events."
        + " X: the special timelines of C11 (crowded warps, long warps, far-out events and queries, extreme and many-digit BPMs, hour offsets), each also under a decimal context of 6 digits."
    )
    run.assumptions = [
        "mc/models/timeline.py: B_default(t) = sup{b: arrive(b) <= t}, B_warp(t) = inf{b: depart(b) >= t}",
        "boundary clauses are only demanded where the engine's float time equals the exact rational time (dyadic coarse grid); elsewhere the half-tick clause applies",
        "delay-only beats inside a warp are covered by the pause clause, not the round-trip clause (DESIGN 5, C12)",
    ]
    core.require(acc.outcomes["special timeline (crowded warp / long warp / far out / many digits)"] > 0, "no special timeline")
    core.require(acc.outcomes["warp shorter than half a tick"] > 0, "no tiny warp")
    core.require(acc.outcomes["pause together with a warp"] > 0, "no pause+warp timeline")
    core.require(acc.outcomes["stop and delay"] > 0, "no stop+delay timeline")
    return run.finish(
        states=acc.c["states"],
        transitions=acc.c["transitions"],
        evaluations=acc.c["evaluations"],
        distinct_nontrivial=acc.c["nontrivial"],
    )
