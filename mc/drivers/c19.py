"""
C19 - directory and pack discovery finds exactly the right simfiles.

Shape I over directory trees x environment answers: song directories are every
subset of a name alphabet (simfile extensions in mixed case, near-miss names, other
files); packs are every multiset of child kinds; every tree is materialised on a
MemoryFS and on the native filesystem, and every listing order the seam offers is
enumerated, x ignore_duplicate x trailing slash x strict / encoding loader options.
"""
import itertools
import os
import shutil
import tempfile

from .. import core
from .. import fsseam

import fs.path  # noqa: E402
import simfile  # noqa: E402
from simfile.dir import DuplicateSimfileError, SimfileDirectory, SimfilePack  # noqa: E402

LEVEL = "model_checking"

# "song.sm" / "Song.SSC": simfiles named like the directory they are in (the enumerated song directory is called "song")
# "._a.sm", "~b.ssc", "#c.sm#": names that operating systems and editors give to side files - simfiles all the same
NAMES = ["a.sm", "b.SM", "c.Ssc", "d.ssc", ".sm", "x.sm.old", "y.ssca", "sm", "bn.png", "song.ogg", "e.ßc", "f.ſm", "data_sm", "x-ssc", "song.sm", "Song.SSC", "._a.sm", "~b.ssc"]
JP = "日本語タイトル"


def kind_of(name):
    low = name.lower()
    if low.endswith(".ssc"):
        return "ssc"
    if low.endswith(".sm"):
        return "sm"
    return None


def content_for(name, stray=False, jp=False):
    title = JP if jp else name
    text = ("#VERSION:0.83;\n" if kind_of(name) == "ssc" else "") + f"#TITLE:{title};\n" + ("stray text\n#ARTIST:x;\n" if stray else "")
    return text.encode("cp932" if jp else "utf-8")


# pack children: kind -> {file name: bytes | dict}
def child_tree(kind):
    if kind == "sm":
        return {"a.sm": content_for("a.sm"), "song.ogg": b"x"}
    if kind == "ssc":
        return {"C.SSC": content_for("C.SSC")}
    if kind == "both":
        return {"a.sm": content_for("a.sm"), "c.ssc": content_for("c.ssc"), "bn.png": b"x"}
    if kind == "dup":
        return {"a.sm": content_for("a.sm"), "b.SM": content_for("b.SM")}
    if kind == "stray":
        return {"s.sm": content_for("s.sm", stray=True)}
    if kind == "empty":
        return {}
    if kind == "nearmiss":
        return {"x.sm.old": b"x", "y.ssca": b"x", "sm": b"x", "e.ßc": b"x", "f.ſm": b"x", "data_sm": b"x", "x-ssc": b"x"}
    if kind == "nested":
        return {"inner": {"a.sm": content_for("a.sm")}, "readme.txt": b"x"}
    if kind == "jp":
        return {"j.sm": content_for("j.sm", jp=True)}
    raise core.MachineryError(kind)


CHILD_KINDS = ["sm", "ssc", "both", "dup", "stray", "empty", "nearmiss", "nested", "loosefile", "looseimage", "jp"]


class World:
    """One tree on both filesystems."""

    def __init__(self):
        self.mem = fsseam.SeamMemoryFS()
        self.nat = fsseam.SeamNativeFS()
        self.root = tempfile.mkdtemp(prefix="verif-c19-")
        self.n = 0

    def close(self):
        shutil.rmtree(self.root, ignore_errors=True)
        self.mem.close()

    def make(self, tree):
        """materialise; returns (memory path, native path) of the tree's root directory"""
        self.n += 1
        name = f"t{self.n}"
        mroot = f"/{name}"
        nroot = os.path.join(self.root, name)
        self.mem.makedirs(mroot, recreate=True)
        os.makedirs(nroot)

        def rec(t, mp, np_):
            for k, v in t.items():
                if isinstance(v, dict):
                    self.mem.makedirs(fs.path.join(mp, k), recreate=True)
                    os.makedirs(os.path.join(np_, k), exist_ok=True)
                    rec(v, fs.path.join(mp, k), os.path.join(np_, k))
                else:
                    self.mem.writebytes(fs.path.join(mp, k), v)
                    with open(os.path.join(np_, k), "wb") as f:
                        f.write(v)

        rec(tree, mroot, nroot)
        return mroot, nroot

    def drop(self, mroot, nroot):
        self.mem.removetree(mroot)
        shutil.rmtree(nroot, ignore_errors=True)


def norm(fsname, p):
    if p is None:
        return None
    return fs.path.normpath(p) if fsname == "mem" else os.path.normpath(p)


def join(fsname, *parts):
    return fs.path.join(*parts) if fsname == "mem" else os.path.join(*parts)


def outcome(fn):
    try:
        return ("ok", fn())
    except core.WatchdogTimeout:
        raise
    except BaseException as e:
        return ("exc", type(e).__name__)


def title_of(sf):
    return (type(sf).__name__, sf.title)


# ---------------------------------------------------------------------------
# song directories
# ---------------------------------------------------------------------------


def expected_dir(names_in_listing_order, ignore_dup):
    sm = [n for n in names_in_listing_order if kind_of(n) == "sm"]
    ssc = [n for n in names_in_listing_order if kind_of(n) == "ssc"]
    if (len(sm) > 1 or len(ssc) > 1) and not ignore_dup:
        return ("exc", "DuplicateSimfileError")
    return ("ok", sm[0] if sm else None, ssc[0] if ssc else None)


def check_songdir(world, names, order, ignore_dup, slash, paths):
    """names: subset of NAMES present; paths = (mem path, native path)"""
    fails = []
    for fsname, fsobj, base in (("mem", world.mem, paths[0]), ("nat", world.nat, paths[1])):
        fsobj.order = order
        listing = fsseam.permute(names, order)
        exp = expected_dir(listing, ignore_dup)
        path = base + ("/" if slash else "")
        if ignore_dup:
            res = outcome(lambda: SimfileDirectory(path, filesystem=fsobj, ignore_duplicate=True))
        else:
            res = outcome(lambda: SimfileDirectory(path, filesystem=fsobj))  # the documented default: duplicates raise
        tag = {"fs": fsname}
        if exp[0] == "exc":
            if res != exp:
                fails.append({"clause": "two simfiles of one kind do not raise the duplicate error", "expected": exp, "observed": res if res[0] == "exc" else "constructed", **tag})
            # opendir has no ignore_duplicate: it must raise, too
            continue
        if res[0] != "ok":
            fails.append({"clause": "SimfileDirectory raised", "expected": "object", "observed": res, **tag})
            continue
        sd = res[1]
        want_sm = norm(fsname, join(fsname, base, exp[1])) if exp[1] else None
        want_ssc = norm(fsname, join(fsname, base, exp[2])) if exp[2] else None
        got = (norm(fsname, sd.sm_path), norm(fsname, sd.ssc_path), norm(fsname, sd.simfile_path))
        if got != (want_sm, want_ssc, want_ssc or want_sm):
            fails.append({"clause": "sm_path / ssc_path / simfile_path are not the .sm / .ssc entries the directory directly contains (first listed wins among ignored duplicates)", "expected": [want_sm, want_ssc, want_ssc or want_sm], "observed": list(got), **tag})
            continue
        chosen = exp[2] or exp[1]
        o = outcome(lambda: title_of(sd.open()))
        want_open = ("ok", ("SSCSimfile" if exp[2] else "SMSimfile", chosen)) if chosen else ("exc", "FileNotFoundError")
        if o != want_open:
            fails.append({"clause": "open() does not open the SSC in preference to the SM (FileNotFoundError without either)", "expected": want_open, "observed": o, **tag})
        # the default filesystem (no filesystem= argument) sees the same native directory
        if fsname == "nat" and len([n for n in names if kind_of(n)]) <= 1:
            d0 = outcome(lambda: (lambda sd0: (norm("nat", sd0.sm_path), norm("nat", sd0.ssc_path)))(SimfileDirectory(path, ignore_duplicate=ignore_dup)))
            if d0 != ("ok", (want_sm, want_ssc)):
                fails.append({"clause": "SimfileDirectory without a filesystem argument does not see the native directory", "expected": [want_sm, want_ssc], "observed": d0, **tag})
            o0 = outcome(lambda: title_of(simfile.opendir(path)[0]))
            if o0 != want_open:
                fails.append({"clause": "opendir without a filesystem argument does not open the native directory's simfile", "expected": want_open, "observed": o0, **tag})
        # the same directory named relative to the current directory (native filesystem)
        if fsname == "nat" and order == 0 and not slash:
            cwd = os.getcwd()
            try:
                os.chdir(os.path.dirname(base))
                leaf = os.path.basename(base)
                for rel in (leaf, "./" + leaf, leaf + "/", "../" + os.path.basename(os.path.dirname(base)) + "/" + leaf):
                    ab = lambda p_: None if p_ is None else os.path.normpath(os.path.abspath(p_))  # noqa: E731
                    dr = outcome(lambda: (lambda d_: (ab(d_.sm_path), ab(d_.ssc_path), title_of(d_.open()) if chosen else None))(SimfileDirectory(rel, filesystem=fsobj, ignore_duplicate=ignore_dup)))
                    if dr != ("ok", (want_sm, want_ssc, want_open[1] if chosen else None)):
                        fails.append({"clause": "a directory named relative to the current directory gives different answers", "expected": [want_sm, want_ssc, want_open], "observed": dr, "spelling": rel, **tag})
                        break
                    # ... and with the default filesystem (no filesystem= argument at all; the listing order is then the
                    # operating system's, so only directories without duplicates have one answer)
                    if len([n for n in names if kind_of(n)]) > 1:
                        continue
                    dd = outcome(lambda: (lambda d_: (ab(d_.sm_path), ab(d_.ssc_path), title_of(d_.open()) if chosen else None))(SimfileDirectory(rel, ignore_duplicate=ignore_dup)))
                    if dd != ("ok", (want_sm, want_ssc, want_open[1] if chosen else None)):
                        fails.append({"clause": "a directory named relative to the current directory gives different answers with the default filesystem", "expected": [want_sm, want_ssc, want_open], "observed": dd, "spelling": rel, **tag})
                        break
                # from inside the directory itself: "."
                os.chdir(base)
                dot = outcome(lambda: (lambda d_: (ab(d_.sm_path), ab(d_.ssc_path)))(SimfileDirectory(".", ignore_duplicate=ignore_dup)))
                if len([n for n in names if kind_of(n)]) <= 1 and dot != ("ok", (want_sm, want_ssc)):
                    fails.append({"clause": "SimfileDirectory('.') with the default filesystem gives different answers", "expected": [want_sm, want_ssc], "observed": dot, **tag})
            finally:
                os.chdir(cwd)
        # opendir returns the same simfile and path (it never ignores duplicates)
        if expected_dir(listing, False)[0] == "ok":
            od = outcome(lambda: (lambda r: (title_of(r[0]), norm(fsname, r[1])))(simfile.opendir(path, filesystem=fsobj)))
            want_od = ("ok", (want_open[1], want_ssc or want_sm)) if chosen else ("exc", "FileNotFoundError")
            if od != want_od:
                fails.append({"clause": "opendir does not return the same simfile and path as SimfileDirectory", "expected": want_od, "observed": od, **tag})
    return fails


# ---------------------------------------------------------------------------
# packs
# ---------------------------------------------------------------------------


def pack_tree(children):
    tree = {}
    for i, k in enumerate(children):
        if k == "loosefile":
            tree[f"loose{i}.sm"] = content_for("loose.sm")
        elif k == "looseimage":
            tree[f"img{i}.png"] = b"x"
        else:
            tree[f"c{i}_{k}"] = child_tree(k)
    return {"Pack": tree}


def dir_has_simfile(t):
    return isinstance(t, dict) and any(kind_of(n) and True for n in t)


def expected_pack(children_tree, order, ignore_dup, strict, encoding=None):
    """(dir names in listing order, outcomes of opening them lazily: list then optional exception)"""
    listing = fsseam.permute(list(children_tree), order)
    dirs = [n for n in listing if isinstance(children_tree[n], dict) and any(kind_of(x) for x in children_tree[n])]
    opened = []
    for d in dirs:
        files = fsseam.permute(list(children_tree[d]), order)
        e = expected_dir(files, ignore_dup)
        if e[0] == "exc":
            opened.append(("exc", "DuplicateSimfileError"))
            break
        chosen = e[2] or e[1]
        data = children_tree[d][chosen]
        if b"stray text" in data and strict:
            opened.append(("exc", "MSDParserError"))
            break
        if d.endswith("_jp"):
            if encoding == "cp932":
                opened.append(("ok", ("SMSimfile", JP)))
            else:
                opened.append(("any",))
            continue
        opened.append(("ok", ("SSCSimfile" if e[2] else "SMSimfile", chosen)))
    return dirs, opened


def drain(it, key):
    out = []
    try:
        for x in it:
            out.append(("ok", key(x)))
    except core.WatchdogTimeout:
        raise
    except BaseException as e:
        out.append(("exc", type(e).__name__))
    return out


def same_opened(got, want):
    if len(got) != len(want):
        return False
    return all(w == ("any",) and g[0] == "ok" or g == w for g, w in zip(got, want))


def check_pack(world, children, order, ignore_dup, strict, slash, paths, encoding=None):
    fails = []
    tree = pack_tree(children)["Pack"]
    kw = {"strict": strict}
    if encoding:
        kw["encoding"] = encoding
    for fsname, fsobj, base in (("mem", world.mem, paths[0]), ("nat", world.nat, paths[1])):
        fsobj.order = order
        pdir = join(fsname, base, "Pack") + ("/" if slash else "")
        tag = {"fs": fsname}
        dirs, opened = expected_pack(tree, order, ignore_dup, strict, encoding)
        res = outcome(lambda: SimfilePack(pdir, filesystem=fsobj, ignore_duplicate=True) if ignore_dup else SimfilePack(pdir, filesystem=fsobj))
        if res[0] != "ok":
            fails.append({"clause": "SimfilePack raised", "expected": "object", "observed": res, **tag})
            continue
        sp = res[1]
        want_paths = [norm(fsname, join(fsname, base, "Pack", d)) for d in dirs]
        got_paths = [norm(fsname, p) for p in sp.simfile_dir_paths]
        if got_paths != want_paths:
            fails.append({"clause": "a pack does not list exactly its immediate sub-directories that directly contain a simfile", "expected": want_paths, "observed": got_paths, **tag})
            continue
        if sp.name != "Pack":
            fails.append({"clause": "pack name is not the directory name", "expected": "Pack", "observed": sp.name, **tag})
        if fsname == "nat" and order == 0 and not slash:
            cwd = os.getcwd()
            try:
                os.chdir(base)
                for rel in ("Pack", "./Pack", "Pack/"):
                    pr = outcome(lambda: (lambda p_: ([os.path.normpath(os.path.abspath(x)) for x in p_.simfile_dir_paths], p_.name))(SimfilePack(rel, filesystem=fsobj, ignore_duplicate=ignore_dup)))
                    if pr != ("ok", (want_paths, "Pack")):
                        fails.append({"clause": "a pack named relative to the current directory gives different answers", "expected": [want_paths, "Pack"], "observed": pr, "spelling": rel, **tag})
                        break
                    pd = outcome(lambda: (lambda p_: (sorted(os.path.normpath(os.path.abspath(x)) for x in p_.simfile_dir_paths), p_.name))(SimfilePack(rel, ignore_duplicate=ignore_dup)))
                    if pd != ("ok", (sorted(want_paths), "Pack")):
                        fails.append({"clause": "a pack named relative to the current directory gives different answers with the default filesystem", "expected": [want_paths, "Pack"], "observed": pd, "spelling": rel, **tag})
                        break
                os.chdir(join("nat", base, "Pack"))
                here = outcome(lambda: sorted(os.path.normpath(os.path.abspath(x)) for x in SimfilePack(".").simfile_dir_paths))
                if here != ("ok", sorted(want_paths)):
                    fails.append({"clause": "SimfilePack('.') with the default filesystem gives different answers", "expected": sorted(want_paths), "observed": here, **tag})
            finally:
                os.chdir(cwd)
        got_open = drain(sp.simfiles(**kw), title_of)
        again = drain(sp.simfiles(**kw), title_of)
        if again != got_open:
            fails.append({"clause": "iterating the same pack object a second time gives a different answer", "expected": got_open, "observed": again, **tag})
        if not same_opened(got_open, opened):
            fails.append({"clause": "SimfilePack.simfiles does not open each directory's simfile with the caller's loader options", "expected": opened, "observed": got_open, "options": kw, **tag})
        # simfile_dirs agree with SimfileDirectory on each path
        sd_paths = drain(sp.simfile_dirs(), lambda sd: norm(fsname, sd.simfile_dir))
        want_sd = []
        for d in dirs:
            if expected_dir(fsseam.permute(list(tree[d]), order), ignore_dup)[0] == "exc":
                want_sd.append(("exc", "DuplicateSimfileError"))
                break
            want_sd.append(("ok", norm(fsname, join(fsname, base, "Pack", d))))
        if sd_paths != want_sd:
            fails.append({"clause": "simfile_dirs() does not yield the listed directories", "expected": want_sd, "observed": sd_paths, **tag})
        # openpack: same simfiles and paths, loader options passed through (it never ignores duplicates)
        _, opened_nd = expected_pack(tree, order, False, strict, encoding)
        got_op = drain(simfile.openpack(pdir, filesystem=fsobj, **kw), lambda r: (title_of(r[0]), norm(fsname, r[1])))
        got_titles = [(g[0], g[1][0]) if g[0] == "ok" else g for g in got_op]
        if not same_opened(got_titles, opened_nd):
            fails.append({"clause": "openpack does not return the same simfiles as the pack object (loader options must reach every file)", "expected": opened_nd, "observed": got_titles, "options": kw, **tag})
        else:
            # paths: the simfile path of each directory
            for g, d in zip(got_op, dirs):
                if g[0] != "ok":
                    break
                files = fsseam.permute(list(tree[d]), order)
                e = expected_dir(files, False)
                chosen = e[2] or e[1]
                wantp = norm(fsname, join(fsname, base, "Pack", d, chosen))
                if g[1][1] != wantp:
                    fails.append({"clause": "openpack does not return the simfile's path", "expected": wantp, "observed": g[1][1], **tag})
                    break
    return fails


# ---------------------------------------------------------------------------
# one directory / pack object used several times
# ---------------------------------------------------------------------------

OPEN_OPTIONS = {"default": {}, "lenient": {"strict": False}, "strict": {"strict": True}}


def reuse_trees():
    return {
        "stray ssc": {"s.ssc": content_for("s.ssc", stray=True)},
        "clean sm": {"a.sm": content_for("a.sm")},
        "stray sm + clean ssc": {"s.sm": content_for("s.sm", stray=True), "c.ssc": content_for("c.ssc")},
    }


def check_reuse(world, tree_name, history, as_pack):
    """
    history: option names.  The same SimfileDirectory (or SimfilePack) object is asked once per entry; every answer
    must be what a fresh object gives for that option alone, every answer is a new simfile object, and editing
    an earlier answer does not show in a later one.
    """
    fails = []
    tree = reuse_trees()[tree_name]
    paths = world.make({"pack": {"song": tree}})
    try:
        for fsname, fsobj, base in (("mem", world.mem, paths[0]), ("nat", world.nat, paths[1])):
            fsobj.order = 0
            tag = {"fs": fsname}
            pdir = join(fsname, base, "pack")
            sdir = join(fsname, pdir, "song")
            if as_pack:
                make = lambda: SimfilePack(pdir, filesystem=fsobj)  # noqa: E731
                ask = lambda o, kw: [title_of(sf) for sf in o.simfiles(**kw)]  # noqa: E731
                raw = lambda o, kw: list(o.simfiles(**kw))  # noqa: E731
            else:
                make = lambda: SimfileDirectory(sdir, filesystem=fsobj)  # noqa: E731
                ask = lambda o, kw: title_of(o.open(**kw))  # noqa: E731
                raw = lambda o, kw: [o.open(**kw)]  # noqa: E731
            alone = {name: outcome(lambda: ask(make(), kw)) for name, kw in OPEN_OPTIONS.items()}
            obj = make()
            handed_out = []
            for i, name in enumerate(history):
                kw = OPEN_OPTIONS[name]
                try:
                    got_objs = raw(obj, kw)
                    got = ("ok", [title_of(x) for x in got_objs] if as_pack else title_of(got_objs[0]))
                except core.WatchdogTimeout:
                    raise
                except BaseException as e:
                    got_objs, got = [], ("exc", type(e).__name__)
                if got != alone[name]:
                    fails.append({"clause": "the answer of a directory / pack object depends on how it was used before", "expected": alone[name], "observed": got, "step": i, **tag})
                    break
                if any(x is y for x in got_objs for y in handed_out):
                    fails.append({"clause": "a directory / pack object hands out the same simfile object twice", "expected": "a new object per call", "observed": "shared", "step": i, **tag})
                    break
                for x in got_objs:
                    x["TITLE"] = "edited by the caller"  # must not show in later answers
                handed_out += got_objs
    finally:
        world.drop(*paths)
    return fails


def check_case(case):
    world = World()
    try:
        if case["kind"] == "oddnames":
            acc = core.Acc()
            explore_shard(acc, ("oddnames",))
            return [{"clause": v["clause"], "expected": v.get("expected"), "observed": v.get("observed")} for v in acc.violations if v["case"].get("name") == case["name"]]
        if case["kind"] == "reuse":
            return check_reuse(world, case["tree"], case["history"], case["as_pack"])
        if case["kind"] == "songdir":
            tree = {n: content_for(n) for n in case["names"]}
            paths = world.make({"song": tree})
            paths = (paths[0] + "/song", os.path.join(paths[1], "song"))
            return check_songdir(world, case["names"], case["order"], case["ignore_duplicate"], case["slash"], paths)
        if case["kind"] == "pack":
            paths = world.make(pack_tree(case["children"]))
            return check_pack(world, case["children"], case["order"], case["ignore_duplicate"], case["strict"], case["slash"], paths, case.get("encoding"))
    finally:
        world.close()
    raise core.MachineryError("unknown case")


def explore_shard(acc, shard):
    kind = shard[0]
    world = World()
    try:
        if kind == "oddnames":
            # directories whose names mean something to a shell, to os.path or to a formatter: taken literally
            layer = "directories with odd names"
            case = None
            for dname in ("~", "~root", "$HOME", "%d", "{0}", "a b", "-x", "\u00fc", "e\u0301", "song.sm", "x.ssc"):
                tree = {"a.sm": content_for("a.sm")}
                paths = world.make({"Pack": {dname: tree, "other": {"o.ssc": content_for("o.ssc")}}})
                for fsname, fsobj, base in (("mem", world.mem, paths[0]), ("nat", world.nat, paths[1])):
                    fsobj.order = 0
                    tag = {"fs": fsname}
                    case = {"kind": "oddnames", "name": dname}
                    core.guard_cheap(acc, case)
                    pdir = join(fsname, base, "Pack")
                    sdir = join(fsname, pdir, dname)
                    want_sm = norm(fsname, join(fsname, sdir, "a.sm"))
                    want = ("ok", (want_sm, ("SMSimfile", "a.sm")))
                    got = outcome(lambda: (lambda d_: (norm(fsname, d_.sm_path), title_of(d_.open())))(SimfileDirectory(sdir, filesystem=fsobj)))
                    od = outcome(lambda: (lambda r: (norm(fsname, r[1]), title_of(r[0])))(simfile.opendir(sdir, filesystem=fsobj)))
                    pk = outcome(lambda: sorted(norm(fsname, p_) for p_ in SimfilePack(pdir, filesystem=fsobj).simfile_dir_paths))
                    want_pk = ("ok", sorted(norm(fsname, join(fsname, pdir, d)) for d in (dname, "other")))
                    fails = []
                    if got != want:
                        fails.append({"clause": "a directory with an odd name is not read like any other", "expected": want, "observed": got, **tag})
                    if od != want:
                        fails.append({"clause": "opendir on a directory with an odd name differs from SimfileDirectory", "expected": want, "observed": od, **tag})
                    if pk != want_pk:
                        fails.append({"clause": "a pack does not list exactly its immediate sub-directories that directly contain a simfile", "expected": want_pk, "observed": pk, **tag})
                    if fsname == "nat":
                        # ... also when named relative to the current directory (a bare "~" must not become the home directory)
                        cwd = os.getcwd()
                        try:
                            os.chdir(pdir)
                            for rel in (dname, "./" + dname):
                                if rel.startswith("-"):
                                    pass
                                rg = outcome(lambda: (lambda r: (os.path.normpath(os.path.abspath(r[1])), title_of(r[0])))(simfile.opendir(rel)))
                                if rg != want:
                                    fails.append({"clause": "opendir on a relative odd directory name differs", "expected": want, "observed": rg, "spelling": rel, **tag})
                                rd = outcome(lambda: (lambda d_: (os.path.normpath(os.path.abspath(d_.sm_path)), title_of(d_.open())))(SimfileDirectory(rel)))
                                if rd != want:
                                    fails.append({"clause": "SimfileDirectory on a relative odd directory name differs", "expected": want, "observed": rd, "spelling": rel, **tag})
                        finally:
                            os.chdir(cwd)
                    acc.count("states")
                    acc.count("transitions")
                    acc.count("evaluations", 5)
                    acc.count("nontrivial")
                    acc.outcome("directory with an odd name")
                    for f in fails:
                        acc.violation(f["clause"], case, f["expected"], f["observed"], signature=(f["clause"], "oddnames"))
                world.drop(*paths)
            acc.sample(layer, case)
            return
        if kind == "bigdir":
            # a directory of hundreds of entries: the simfile is found wherever the listing puts it
            _, n_other = shard
            layer = "big directories"
            others = [f"f{i:04d}.txt" for i in range(n_other)] + ["z.sm.bak", "notes.ssc~"]
            case = None
            for simfiles in (["song.sm"], ["m.ssc"], ["a.sm", "n.SSC"]):
                names = others + simfiles
                tree = {n: (content_for(n) if kind_of(n) else b"x") for n in names}
                paths = world.make({"song": tree})
                spaths = (paths[0] + "/song", os.path.join(paths[1], "song"))
                order_count = len(names)
                srt = sorted(names)
                # the listing orders that put a simfile first, last, and just behind 127 / 128 / 129 / 255 / 256 other entries
                wanted_positions = {0, 1, 127, 128, 129, 255, 256, len(names) - 1}
                orders = set()
                for sfn in simfiles:
                    i = srt.index(sfn)
                    for pos in wanted_positions:
                        if pos < len(names):
                            orders.add((i - pos) % order_count)
                for order in sorted(orders):
                    case = {"kind": "songdir", "names": names, "order": order, "ignore_duplicate": False, "slash": False}
                    core.guard(acc, {"kind": "bigdir", "entries": len(names), "simfiles": simfiles, "order": order})
                    fails = check_songdir(world, names, order, False, False, spaths)
                    # the same directory inside a pack
                    ppaths = world.make({"Pack": {"song": tree, "other": {"o.sm": content_for("o.sm")}}})
                    pf = []
                    for fsname, fsobj, base in (("mem", world.mem, ppaths[0]), ("nat", world.nat, ppaths[1])):
                        fsobj.order = order
                        got = outcome(lambda: sorted(norm(fsname, p_) for p_ in SimfilePack(join(fsname, base, "Pack"), filesystem=fsobj).simfile_dir_paths))
                        want = ("ok", sorted(norm(fsname, join(fsname, base, "Pack", d)) for d in ("song", "other")))
                        if got != want:
                            pf.append({"clause": "a pack does not list exactly its immediate sub-directories that directly contain a simfile", "expected": want, "observed": got, "fs": fsname})
                    world.drop(*ppaths)
                    acc.count("states")
                    acc.count("transitions")
                    acc.count("evaluations", 4)
                    acc.count("nontrivial")
                    acc.outcome("directory with hundreds of entries")
                    for f in fails + pf:
                        acc.violation(f["clause"], dict(case, names=f"{n_other} text files + {simfiles}"), f["expected"], f["observed"], signature=(f["clause"], "bigdir"))
                world.drop(*paths)
            acc.sample(layer, {"entries": n_other + 3})
            return
        if kind == "reuse":
            _, tree_name, as_pack, depth = shard
            layer = "one object used several times"
            case = None
            for n in range(1, depth + 1):
                for history in itertools.product(OPEN_OPTIONS, repeat=n):
                    case = {"kind": "reuse", "tree": tree_name, "history": list(history), "as_pack": as_pack}
                    core.guard_cheap(acc, case)
                    fails = check_reuse(world, tree_name, history, as_pack)
                    acc.count("states")
                    acc.count("transitions", n)
                    acc.count("evaluations", 2 * n)
                    if n >= 2:
                        acc.count("nontrivial")
                        acc.outcome("directory / pack object opened more than once")
                    for f in fails:
                        acc.violation(f["clause"], case, f["expected"], f["observed"], signature=(f["clause"], as_pack))
            acc.sample(layer, case)
            return
        if kind == "songdir":
            _, first, maxn = shard
            layer = "song directories"
            rest = NAMES[first + 1:] if first is not None else []
            subsets = [[]] if first is None else [[NAMES[first]] + list(s) for r in range(0, maxn) for s in itertools.combinations(rest, r)]
            case = None
            for names in subsets:
                tree = {n: content_for(n) for n in names}
                paths = world.make({"song": tree})
                paths = (paths[0] + "/song", os.path.join(paths[1], "song"))
                relevant = len(names)
                acc.count("states")
                nsm = sum(kind_of(n) == "sm" for n in names)
                nssc = sum(kind_of(n) == "ssc" for n in names)
                if nsm + nssc >= 2:
                    acc.count("nontrivial")
                for order in range(fsseam.orders_for(relevant)):
                    for ignore_dup in (False, True):
                        for slash in (False, True):
                            case = {"kind": "songdir", "names": names, "order": order, "ignore_duplicate": ignore_dup, "slash": slash}
                            core.guard_cheap(acc, case)
                            fails = check_songdir(world, names, order, ignore_dup, slash, paths)
                            acc.count("transitions")
                            acc.count("evaluations", 2)
                            if (nsm > 1 or nssc > 1):
                                acc.outcome("duplicate simfiles, ignored" if ignore_dup else "duplicate simfiles, error")
                            if nsm == 0 and nssc == 0:
                                acc.outcome("directory without simfile")
                            for f in fails:
                                acc.violation(f["clause"], case, f["expected"], f["observed"], signature=(f["clause"], f.get("fs")))
                world.drop(*world_paths(paths))
            if case:
                acc.sample(layer, case)
        elif kind == "pack":
            _, first, maxn = shard
            layer = "packs"
            idx = CHILD_KINDS.index(first) if first is not None else None
            multisets = [[]] if first is None else [[first] + list(s) for r in range(0, maxn) for s in itertools.combinations_with_replacement(CHILD_KINDS[idx:], r)]
            case = None
            for children in multisets:
                paths = world.make(pack_tree(children))
                acc.count("states")
                if len(children) >= 2:
                    acc.count("nontrivial")
                for order in range(fsseam.orders_for(len(children))):
                    for ignore_dup in (False, True):
                        for strict in (True, False):
                            for slash in ((False, True) if order == 0 else (False,)):
                                encs = (None, "cp932") if "jp" in children else (None,)
                                for enc in encs:
                                    case = {"kind": "pack", "children": children, "order": order, "ignore_duplicate": ignore_dup, "strict": strict, "slash": slash, "encoding": enc}
                                    core.guard_cheap(acc, case)
                                    fails = check_pack(world, children, order, ignore_dup, strict, slash, paths, enc)
                                    acc.count("transitions")
                                    acc.count("evaluations", 2)
                                    if "stray" in children and not strict:
                                        acc.outcome("stray-text file opened with strict=False")
                                    if enc:
                                        acc.outcome("explicit encoding passed down")
                                    if "nested" in children or "loosefile" in children:
                                        acc.outcome("nested directory / loose file beside song directories")
                                    for f in fails:
                                        acc.violation(f["clause"], case, f["expected"], f["observed"], signature=(f["clause"], f.get("fs")))
                world.drop(*paths)
            if case:
                acc.sample(layer, case)
    finally:
        world.close()


def world_paths(paths):
    return (fs.path.dirname(paths[0]), os.path.dirname(paths[1]))


def explore(run):
    shards = []
    maxn = 4 if run.thorough() else 3
    shards.append(("songdir", None, 0))
    for i in range(len(NAMES)):
        shards.append(("songdir", i, maxn))
    pmax = 4 if run.thorough() else 3
    shards.append(("pack", None, 0))
    for k in CHILD_KINDS:
        shards.append(("pack", k, pmax))
    shards.append(("oddnames",))
    for n_other in (130, 300) + ((1100,) if run.thorough() else ()):
        shards.append(("bigdir", n_other))
    for t in reuse_trees():
        for as_pack in (False, True):
            shards.append(("reuse", t, as_pack, 4 if run.thorough() else 3))
    k = run.seed % len(shards)
    shards = shards[k:] + shards[:k]
    run.merge(core.pmap(explore_shard, shards, run.seed))
    acc = run.acc
    run.rule = (
        f"reuse: one SimfileDirectory / SimfilePack object opened along every history of <= {4 if run.thorough() else 3} calls over (default, strict=False, strict=True) on 3 trees (every answer compared with a fresh object's); "
        "big directories: 130 and 300 (thorough 1100) other entries with the simfile(s) listed first, second, 128th, 129th, 130th, 256th, 257th and last, alone and inside a pack; "
        f"song directories: every subset of <= {maxn} names from {NAMES} x every listing order of the entries x ignore_duplicate x trailing slash; "
        f"packs: every multiset of <= {pmax} children from {CHILD_KINDS} x every listing order (applied to the pack and to every song directory) x ignore_duplicate x strict x trailing slash x explicit encoding (when a CP932 file is present); "
        "every tree on MemoryFS and on a native temporary directory (there also named relative to the current directory: bare, ./name, name/, ../parent/name). A state is one tree; non-trivial = at least two simfiles / two children."
    )
    run.assumptions = [
        "listing order is an environment answer chosen through the filesystem seam (mc/fsseam.py); paths are compared after normalisation",
        "which entry is 'first listed' is the order the filesystem returned",
    ]
    core.require(acc.outcomes["duplicate simfiles, error"] > 0 and acc.outcomes["duplicate simfiles, ignored"] > 0, "no duplicates")
    core.require(acc.outcomes["directory without simfile"] > 0, "no empty directory")
    core.require(acc.outcomes["directory with hundreds of entries"] > 0, "no big directory")
    core.require(acc.outcomes["directory with an odd name"] > 0, "no odd directory name")
    core.require(acc.outcomes["directory / pack object opened more than once"] > 0, "no reuse history")
    core.require(acc.outcomes["stray-text file opened with strict=False"] > 0, "strict option not exercised")
    core.require(acc.outcomes["explicit encoding passed down"] > 0, "encoding option not exercised")
    core.require(acc.outcomes["nested directory / loose file beside song directories"] > 0, "no nested/loose entries")
    return run.finish(
        states=acc.c["states"],
        transitions=acc.c["transitions"],
        evaluations=acc.c["evaluations"],
        distinct_nontrivial=acc.c["nontrivial"],
    )
