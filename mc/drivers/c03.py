"""
C03 - loading builds exactly the documented object, through every entry point.

Shape I x configurations.  Layer P: every sequence of <= n parameter pieces (known /
unknown / lower-case / duplicate keys, key-only and multi-component parameters,
charts, stray text, comments, missing semicolons, CRLF, BOM).  Layer C: every text
of <= n symbols over MSD metacharacters.  For every text x strict in {True, False}:
every entry point (loads; load on StringIO / iterator of lines / real open files
named *.sm, *.ssc, *.SM, *.SSC, *.txt, *.sm.bak, 'ssc', 'sm' on MemoryFS and the
native filesystem; simfile.open; both class constructors with string= / file=).
Layers K, M: SSCChart.from_str and SMChart.from_str / from_msd.
"""
import io
import itertools
import os
import shutil
import tempfile

from .. import core
from ..models import msd as M
from . import text_common as X

from fs.memoryfs import MemoryFS  # noqa: E402

simfile = X.simfile
SMSimfile, SSCSimfile, SMChart, SSCChart = X.SMSimfile, X.SSCSimfile, X.SMChart, X.SSCChart

LEVEL = "model_checking"
# no reduced pass under `python -O`: the texts here include malformed ones, which the trusted tokenizer (msdparser)
# recognises by assert statements - without them it loops; that is the dependency's business
REDUCED_PASS = False
NAMES = ["x.sm", "x.ssc", ".SM", ".SSC", "x.txt", "x.sm.bak", "ssc", "y.sm\n"]  # ".SM" / ".SSC": upper case and nothing before the dot


def translate(text):
    """What text-mode reading (universal newlines) makes of file content."""
    return text.replace("\r\n", "\n").replace("\r", "\n")


def expected(text, strict, fmt):
    """('ok', observation) | ('rejected', kinds) | ('excluded',)"""
    try:
        model = M.load(text, strict, fmt)
    except M.Rejected as r:
        if "excluded" in r.kinds:
            return ("excluded",)
        return ("rejected", list(r.kinds))
    return ("ok", X.expected_observation(model))


def outcome(fn):
    try:
        return ("ok", X.observe(fn()))
    except core.WatchdogTimeout:
        raise
    except BaseException as e:
        return ("exc", type(e).__name__, str(e)[:80])


def agrees(exp, obs):
    if exp[0] == "ok":
        return obs[0] == "ok" and X.same_observation(obs[1], exp[1])
    if exp[0] == "rejected":
        return obs[0] == "exc" and obs[1] in exp[1]
    return True


class Env:
    """Per-process filesystems used by the file-based entry points."""

    def __init__(self):
        self.mem = MemoryFS()
        self.dir = tempfile.mkdtemp(prefix="verif-c03-")
        self.cwd = os.getcwd()
        os.chdir(self.dir)

    def close(self):
        os.chdir(self.cwd)
        shutil.rmtree(self.dir, ignore_errors=True)
        self.mem.close()

    def put(self, name, text):
        data = text.encode("utf-8")
        self.mem.writebytes(name, data)
        with open(name, "wb") as f:
            f.write(data)


def entry_points(text, strict, env, files=True, native=True):
    """yields (label, fmt the documentation prescribes, content that entry point sees, thunk)"""
    lines = text.splitlines(keepends=True)
    yield "loads", None, text, lambda: simfile.loads(text, strict=strict)
    yield "load(StringIO)", None, text, lambda: simfile.load(io.StringIO(text), strict=strict)
    yield "load(iter(lines))", None, text, lambda: simfile.load(iter(lines), strict=strict)
    if strict:
        # the documented default is strict parsing: the same calls without the argument
        yield "loads (default strict)", None, text, lambda: simfile.loads(text)
        yield "load(StringIO) (default strict)", None, text, lambda: simfile.load(io.StringIO(text))
        yield "SMSimfile(string=) (default strict)", "sm", text, lambda: SMSimfile(string=text)
        yield "SSCSimfile(file=StringIO) (default strict)", "ssc", text, lambda: SSCSimfile(file=io.StringIO(text))
    yield "SMSimfile(string=)", "sm", text, lambda: SMSimfile(string=text, strict=strict)
    yield "SSCSimfile(string=)", "ssc", text, lambda: SSCSimfile(string=text, strict=strict)
    yield "SMSimfile(file=StringIO)", "sm", text, lambda: SMSimfile(file=io.StringIO(text), strict=strict)
    yield "SSCSimfile(file=StringIO)", "ssc", text, lambda: SSCSimfile(file=io.StringIO(text), strict=strict)
    yield "SMSimfile(file=iter(lines))", "sm", text, lambda: SMSimfile(file=iter(lines), strict=strict)
    yield "SSCSimfile(file=iter(lines))", "ssc", text, lambda: SSCSimfile(file=iter(lines), strict=strict)
    if not files:
        return
    ttext = translate(text)
    for name in NAMES:
        fmt = M.by_name(name)

        def mem_load(name=name):
            with env.mem.open(name, "r", encoding="utf-8") as f:
                return simfile.load(f, strict=strict)

        # MemoryFS text streams do no newline translation (newline=''): they see the text as it is
        yield f"load(MemoryFS file {name})", fmt, text, mem_load
        yield f"open({name}, MemoryFS)", fmt, text, lambda name=name: simfile.open(name, strict=strict, filesystem=env.mem)
        if strict and name == "x.txt":
            yield f"open({name}, MemoryFS) (default strict)", fmt, text, lambda name=name: simfile.open(name, filesystem=env.mem)
        if native:
            def nat_load(name=name):
                with open(name, "r", encoding="utf-8") as f:
                    return simfile.load(f, strict=strict)

            yield f"load(native file {name})", fmt, ttext, nat_load
            yield f"open({name}, native)", fmt, ttext, lambda name=name: simfile.open(name, strict=strict)
    for name, cls, fmt in (("x.txt", SMSimfile, "sm"), ("x.sm", SSCSimfile, "ssc")):
        def cls_file(name=name, cls=cls):
            with env.mem.open(name, "r", encoding="utf-8") as f:
                return cls(file=f, strict=strict)

        yield f"{cls.__name__}(file=MemoryFS file {name})", fmt, text, cls_file
        if native:
            def cls_nat(name=name, cls=cls):
                with open(name, "r", encoding="utf-8") as f:
                    return cls(file=f, strict=strict)

            yield f"{cls.__name__}(file=native file {name})", fmt, ttext, cls_nat


def check_text(text, env, files=True, native=True):
    """All entry points x strictness for one text. Returns (failures, number of loads, excluded?)."""
    fails = []
    n = 0
    if M.tokenize(text, True)[0] == "assert":
        return fails, 0, True
    if files:
        for name in NAMES:
            env.put(name, text)
    for strict in (True, False):
        cache = {}
        for label, fmt, content, thunk in entry_points(text, strict, env, files, native):
            key = (content, fmt)
            if key not in cache:
                cache[key] = expected(content, strict, fmt)
            exp = cache[key]
            if exp[0] == "excluded":
                continue
            obs = outcome(thunk)
            n += 1
            if not agrees(exp, obs):
                fails.append({
                    "clause": "loaded object differs from the documented rules" if exp[0] == "ok" and obs[0] == "ok"
                    else ("load raised although the rules accept the text" if exp[0] == "ok" else "load did not reject as the rules say"),
                    "entry_point": label, "strict": strict, "expected": core.jsonable(exp), "observed": core.jsonable(obs),
                })
    return fails, n, False


# -- stand-alone charts -------------------------------------------------------------

CHART_PIECES = ["#STEPSTYPE:x;", "#stepstype:y;", "#ATTACKS:a:b;", "#attacks:c:d;", "#NOTES:0000;", "#notes:1;", "#NOTES2:1111;", "#Credit;", "stray", "#METER:1;", "\n", "#NOTESX:n;", "#xNotes2:m;"]
CHART_HEADS = ["#NOTEDATA:;", "#notedata:;", "#NOTEDATA:;\n", "#TITLE:a;", "stray#NOTEDATA:;"]


def check_ssc_chart(text):
    fails = []
    n = 0
    for strict in (True, False):
        try:
            exp = ("ok", M.load_ssc_chart(text, strict)["items"])
        except M.Rejected as r:
            if "excluded" in r.kinds:
                continue
            exp = ("rejected", list(r.kinds))
        try:
            ch = SSCChart.from_str(text, strict=strict)
            obs = ("ok", list(ch.items()))
            if strict and list(SSCChart.from_str(text).items()) != obs[1]:
                obs = ("ok", "differs when strict is left at its default")
        except core.WatchdogTimeout:
            raise
        except BaseException as e:
            obs = ("exc", type(e).__name__, str(e)[:80])
            if strict:
                try:
                    SSCChart.from_str(text)
                    obs = ("ok", "accepted when strict is left at its default")
                except BaseException:
                    pass
        n += 1
        if exp[0] == "ok":
            ok = obs[0] == "ok" and isinstance(obs[1], list) and X._norm_items(obs[1]) == X._norm_items(exp[1])
        else:
            ok = obs[0] == "exc" and obs[1] in exp[1]
        if not ok:
            fails.append({"clause": "SSCChart.from_str differs from the documented rules", "strict": strict, "expected": core.jsonable(exp), "observed": core.jsonable(obs)})
    return fails, n


def check_sm_chart(values):
    fails = []
    if len(values) < 6:
        exp = ("rejected", ["ValueError"])
    else:
        exp = ("ok", {"fields": [v.strip() for v in values[:6]], "extra": list(values[6:]) if len(values) > 6 else None})
    thunks = [("from_msd", lambda: SMChart.from_msd(list(values)), exp)]
    # from_str: "colon-separated components" - every colon separates, whatever stands before it
    joined = ":".join(values)
    parts = joined.split(":")
    if len(parts) < 6:
        exp_s = ("rejected", ["ValueError"])
    else:
        exp_s = ("ok", {"fields": [v.strip() for v in parts[:6]], "extra": list(parts[6:]) if len(parts) > 6 else None})
    thunks.append(("from_str", lambda: SMChart.from_str(joined), exp_s))
    for label, th, exp in thunks:
        try:
            ch = th()
            obs = ("ok", {"fields": [dict.get(ch, k) for k in M.SM_FIELDS], "extra": ch.extradata})
            if list(ch.keys()) != list(M.SM_FIELDS):
                obs = ("ok", {"keys": list(ch.keys())})
        except core.WatchdogTimeout:
            raise
        except BaseException as e:
            obs = ("exc", type(e).__name__)
        ok = (obs == exp) if exp[0] == "ok" else (obs[0] == "exc" and obs[1] in exp[1])
        if not ok:
            fails.append({"clause": f"SMChart.{label} differs from the documented rules", "expected": core.jsonable(exp), "observed": core.jsonable(obs)})
    return fails, len(thunks)


def check_case(case):
    k = case["kind"]
    if k == "text":
        env = Env()
        try:
            return check_text(case["text"], env, case.get("files", True), case.get("native", True))[0]
        finally:
            env.close()
    if k == "ssc_chart":
        return check_ssc_chart(case["text"])[0]
    if k == "sm_chart":
        return check_sm_chart(case["values"])[0]
    raise core.MachineryError("unknown case")


def nontrivial_text(text):
    tok = M.tokenize(text, True)
    if tok[0] != "ok" or len(tok[1]) < 2:
        return False
    params = tok[1]
    keys = [p[0].upper() for p in params]
    return (
        len(set(keys)) < len(keys) or any(p[0] != p[0].upper() for p in params) or any(len(p) == 1 for p in params)
        or any(len(p) > 2 for p in params) or "NOTES" in keys or "NOTEDATA" in keys or M.tokenize(text, False)[0] == "stray"
    )


def report(acc, layer, case, fails):
    for f in fails:
        ep = f.get("entry_point", "")
        ep_class = "file" if ("file " in ep or "open(" in ep) else "memory"
        shape = (f["expected"][0], f["observed"][0], f["observed"][1] if f["observed"][0] == "exc" else f["observed"][1].get("type") if isinstance(f["observed"][1], dict) else None)
        acc.violation(f["clause"], dict(case, first_failing_entry_point=ep, strict=f.get("strict")), f["expected"], f["observed"],
                      signature=(f["clause"], ep_class, shape))


def explore_shard(acc, shard):
    kind = shard[0]
    if kind in ("P", "Pbom", "C"):
        env = Env()
        try:
            if kind == "P":
                _, prefix, maxlen, pool, native_every = shard
                layer = "P parameter pieces"
                seqs = (tuple(prefix) + rest for n in range(0, maxlen - len(prefix) + 1) for rest in itertools.product(pool, repeat=n))
                mk = lambda seq: "".join(X.PIECES[i] for i in seq)
            elif kind == "Pbom":
                _, first, maxlen = shard
                layer = "P parameter pieces (leading BOM)"
                seqs = ((first,) + rest for n in range(0, maxlen) for rest in itertools.product(range(len(X.PIECES)), repeat=n))
                mk = lambda seq: X.BOM + "".join(X.PIECES[i] for i in seq)
            else:
                _, prefix, maxlen = shard
                layer = "C symbol texts"
                seqs = (tuple(prefix) + rest for n in range(0, maxlen - len(prefix) + 1) for rest in itertools.product(range(len(X.SYMBOLS)), repeat=n))
                mk = lambda seq: "".join(X.SYMBOLS[i] for i in seq)
            k = 0
            for seq in seqs:
                text = mk(seq)
                files = kind != "C"
                native = files and (kind == "Pbom" or native_every == 1 or (k % native_every == 0))
                k += 1
                case = {"kind": "text", "text": text, "files": files, "native": native}
                core.guard_cheap(acc, case)
                fails, n, excluded = check_text(text, env, files, native)
                acc.count("states")
                acc.count("transitions")
                acc.count("evaluations", n)
                if excluded:
                    acc.count("excluded_tokenizer_assertion")
                    continue
                if nontrivial_text(text):
                    acc.count("nontrivial")
                tok = M.tokenize(text, False)
                if tok[0] == "stray":
                    acc.outcome("text with stray text")
                elif tok[1] and tok[1][0][0].upper() == "VERSION":
                    acc.outcome("auto-detected as SSC")
                else:
                    acc.outcome("auto-detected as SM")
                if fails:
                    report(acc, layer, case, fails)
            acc.sample(layer, case)
        finally:
            env.close()
    elif kind == "K":
        _, head = shard
        layer = "K SSCChart.from_str"
        for n in range(0, 4):
            for seq in itertools.product(CHART_PIECES, repeat=n):
                text = head + "".join(seq)
                case = {"kind": "ssc_chart", "text": text}
                core.guard_cheap(acc, case)
                fails, m = check_ssc_chart(text)
                acc.count("states")
                acc.count("transitions")
                acc.count("evaluations", m)
                if n >= 2:
                    acc.count("nontrivial")
                for f in fails:
                    acc.violation(f["clause"], case, f["expected"], f["observed"], signature=(layer, f["clause"], f["expected"][0], f["observed"][0]))
        acc.sample(layer, case)
    elif kind == "M":
        _, n = shard
        layer = "M SMChart.from_str / from_msd"
        # 'c\\' puts a backslash in front of the separating colon, 'd:e' a colon inside a component
        vals = ["", "a", "\n b ", "d:e", "c\\"] if n <= 6 else ["", "a", "c\\", "d:e"]
        for values in itertools.product(vals, repeat=n):
            case = {"kind": "sm_chart", "values": list(values)}
            core.guard_cheap(acc, case)
            fails, m = check_sm_chart(values)
            acc.count("states")
            acc.count("transitions")
            acc.count("evaluations", m)
            if n >= 6:
                acc.count("nontrivial")
            for f in fails:
                acc.violation(f["clause"], case, f["expected"], f["observed"], signature=(layer, f["clause"]))
        acc.sample(layer, case)
    elif kind == "Z":
        # size thresholds: the first parameter preceded by N characters of comments / blank lines / (lenient) stray text,
        # and values of N characters, for N around powers of two (buffer and sniffing sizes)
        _, sizes = shard
        layer = "Z long preambles and values"
        env = Env()
        try:
            case = None
            for n in sizes:
                for pre_kind, unit in (("comment", "// 0123456789abcdef\n"), ("blank", " \n"), ("stray", "stray text\n")):
                    pre = (unit * (n // len(unit) + 1))[: n - 1] + "\n"
                    for body in ("#VERSION:0.83;\n#TITLE:t;\n#NOTEDATA:;\n#STEPSTYPE:x;\n#NOTES:0000;\n", "#TITLE:t;\n#VERSION:0.83;\n#NOTES:a:b:c:d:e:f;\n"):
                        text = pre + body
                        case = {"kind": "text", "text": text, "files": True, "native": True}
                        core.guard(acc, {"kind": "text", "text": text[:60] + "...", "preamble": pre_kind, "size": n})
                        fails, m, excluded = check_text(text, env, True, True)
                        acc.count("states")
                        acc.count("transitions")
                        acc.count("evaluations", m)
                        acc.count("nontrivial")
                        acc.outcome("first parameter behind a long preamble")
                        if fails:
                            report(acc, layer, {"kind": "text", "text": text}, [dict(f, expected="(long)" if len(str(f["expected"])) > 300 else f["expected"]) for f in fails])
                big = "#VERSION:0.83;\n#TITLE:" + ("ab\\:c" * (n // 5 + 1))[:n] + "x;\n#ARTIST:z;\n"
                fails, m, excluded = check_text(big, env, True, True)
                acc.count("states")
                acc.count("evaluations", m)
                if fails:
                    report(acc, layer, {"kind": "text", "text": big}, [dict(f, expected="(long)", observed="(long)" if len(str(f["observed"])) > 300 else f["observed"]) for f in fails])
            acc.sample(layer, {"sizes": list(sizes)})
        finally:
            env.close()
    elif kind == "ZS":
        # scale texts through every entry point: multi-byte characters whose bytes straddle a buffer size (files are
        # written as UTF-8), metacharacters at the offsets just before 4096 / 8192, long one-line lists, many charts
        _, part, nparts = shard
        layer = "Z scale texts"
        env = Env()
        try:
            texts = []
            for n in (4096, 8192):
                for ch in ("\u00e9", "\u3042", "\U0001d11e"):
                    for d in range(0, len(ch.encode("utf-8")) + 1):
                        texts.append((f"{ch!r} starting at byte {n - d}", "#A:" + "0" * (n - 3 - d) + ch + ";\n#B:c;\n"))
                        texts.append((f"{ch!r} starting at byte {n - d} (SSC)", "#VERSION:0.83;\n#A:" + "0" * (n - 18 - d) + ch + ";\n#B:c;\n"))
            for fmt in ("sm", "ssc"):
                for label, model in X.scale_models(fmt):
                    if any(label.endswith(f"offset {o}") for o in (4095, 4096, 8191, 8192)) or "700 entries" in label or "130 charts" in label:
                        texts.append((f"{fmt}: {label}", X.model_text(model)))
            case = None
            for i, (label, text) in enumerate(texts):
                if i % nparts != part:
                    continue
                case = {"kind": "text", "text": text, "files": True, "native": True}
                core.guard(acc, {"kind": "text", "text": text[:60] + "...", "label": label})
                fails, m, excluded = check_text(text, env, True, True)
                acc.count("states")
                acc.count("transitions")
                acc.count("evaluations", m)
                acc.count("nontrivial")
                acc.outcome("scale text through every entry point")
                if fails:
                    report(acc, layer, case, [dict(f, expected="(long)" if len(str(f["expected"])) > 300 else f["expected"], observed="(long)" if len(str(f["observed"])) > 300 else f["observed"]) for f in fails])
            acc.sample(layer, {"texts": len(texts)})
        finally:
            env.close()
    elif kind == "corpus":
        _, idx = shard
        rel, path = X.corpus_files()[idx]
        text = X.read_corpus(path)
        layer = "corpus"
        env = Env()
        try:
            variants = [("whole", text), ("lower-cased keys", text.replace("#TITLE", "#title").replace("#NOTES", "#notes").replace("#VERSION", "#Version")),
                        ("stray text in front", "junk\n" + text), ("CRLF", text.replace("\n", "\r\n"))]
            for label, t in variants:
                case = {"kind": "corpus", "file": rel, "variant": label}
                core.guard(acc, case)
                fails, n, _ = check_text(t, env, files=True, native=True)
                acc.count("states")
                acc.count("evaluations", n)
                acc.count("nontrivial")
                if fails:
                    report(acc, layer, case, [dict(f, expected="(large)", observed=f["observed"] if f["observed"][0] == "exc" else "(large, differs)") for f in fails])
            acc.sample(layer, {"file": rel, "chars": len(text)})
        finally:
            env.close()


def explore(run):
    shards = []
    np_ = len(X.PIECES)
    allp = list(range(np_))
    if run.thorough():
        # all sequences of <= 4 pieces, plus 5-piece sequences over the core pieces
        shards.append(("P", (), 1, allp, 1))
        for a in allp:
            for b in allp:
                shards.append(("P", (a, b), 4, allp, 4))
        for a in X.CORE_PIECES:
            for b in X.CORE_PIECES:
                shards.append(("P5", (a, b)))
    else:
        shards.append(("P", (), 1, allp, 1))
        for a in allp:
            # sequences of 2 and 3 pieces, in shards of one (first, second) pair each third of the alphabet
            for lo in range(0, np_, 11):
                for b in allp[lo:lo + 11]:
                    shards.append(("P", (a, b), 3, allp, 8))
    for a in allp:
        shards.append(("Pbom", a, 2 if not run.thorough() else 3))
    ns = len(X.SYMBOLS)
    cmax = 6 if run.thorough() else 5
    shards.append(("C", (), 1))
    for a in range(ns):
        for b in range(ns):
            shards.append(("C", (a, b), cmax))
    for head in CHART_HEADS:
        shards.append(("K", head))
    for n in range(0, 9):
        shards.append(("M", n))
    sizes = [63, 64, 255, 256, 511, 512, 1000, 1016, 1023, 1024, 1025, 2047, 2048, 4095, 4096, 4097, 8191, 8192, 8193, 16384, 65536, 70000]
    for n in sizes:
        shards.append(("Z", (n,)))
    for part in range(32):
        shards.append(("ZS", part, 32))
    shards += [("corpus", i) for i in range(len(X.corpus_files()))]
    k = run.seed % len(shards)
    shards = shards[k:] + shards[:k]
    run.merge(core.pmap(explore_dispatch, shards, run.seed))
    acc = run.acc
    run.rule = (
        f"P: every sequence of <= {4 if run.thorough() else 3} of {np_} parameter pieces"
        + (" plus all 5-piece sequences over 10 core pieces" if run.thorough() else "")
        + ", also behind a BOM; C: every text of <= "
        + str(cmax)
        + f" symbols over {X.SYMBOLS}; each text x strict {{True, False}} x entry points: loads, load(StringIO), load(iterator of lines), both class constructors x string=/file=StringIO/file=iterator, "
        f"and (layer P) real open files and simfile.open for names {NAMES} on MemoryFS (every text) and the native filesystem (every text in thorough, a fixed stride in quick; always for BOM texts); "
        "K: SSCChart.from_str on 5 heads x <=3 of 11 chart pieces; M: SMChart.from_msd/from_str on all component lists of length <= 6 over 5 values and of length 7, 8 over 4 (incl. a colon inside a component and a backslash before the separating colon); corpus files and three systematic variants. "
        "Non-trivial = >= 2 parameters with a duplicate, lower-case, key-only or multi-component parameter, a chart, or stray text."
        + " ZS: scale texts through every entry point - 2/3/4-byte characters at every byte offset straddling 4096 and 8192, metacharacters at the offsets next to them, one-line lists of 700 entries, 130 charts."
    )
    run.assumptions = [
        "msdparser.parse_msd is the trusted tokenizer the rules are applied to",
        "a key-only ATTACKS/DISPLAYBPM parameter may load as None or ''",
        "texts on which the tokenizer fails an internal assertion (trailing backslash) are excluded and counted",
        "file-based entry points see the text after universal-newline translation",
    ]
    core.require(acc.outcomes["scale text through every entry point"] > 0, "no scale text")
    core.require(acc.outcomes["text with stray text"] > 0, "no stray text")
    core.require(acc.outcomes["auto-detected as SSC"] > 0, "no SSC detection")
    core.require(acc.outcomes["auto-detected as SM"] > 0, "no SM detection")
    return run.finish(
        states=acc.c["states"],
        transitions=acc.c["transitions"],
        evaluations=acc.c["evaluations"],
        distinct_nontrivial=acc.c["nontrivial"],
    )


def explore_dispatch(acc, shard):
    if shard[0] == "P5":
        # 5-piece sequences over the core pieces, owned by their first two pieces
        _, prefix = shard
        env = Env()
        try:
            layer = "P parameter pieces (5 over core)"
            k = 0
            for rest in itertools.product(X.CORE_PIECES, repeat=3):
                seq = tuple(prefix) + rest
                text = "".join(X.PIECES[i] for i in seq)
                native = k % 8 == 0
                k += 1
                case = {"kind": "text", "text": text, "files": True, "native": native}
                core.guard_cheap(acc, case)
                fails, n, excluded = check_text(text, env, True, native)
                acc.count("states")
                acc.count("transitions")
                acc.count("evaluations", n)
                if nontrivial_text(text):
                    acc.count("nontrivial")
                if fails:
                    report(acc, layer, case, fails)
            acc.sample(layer, case)
        finally:
            env.close()
    else:
        explore_shard(acc, shard)
