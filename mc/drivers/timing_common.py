"""Shared timeline space for C11, C12, C13: event alphabet, grids, engine construction."""
import itertools
from decimal import Decimal
from fractions import Fraction

from .. import core
from ..models import timeline as T

core.import_simfile()
from simfile.ssc import SSCSimfile  # noqa: E402
from simfile.timing import Beat, TimingData  # noqa: E402
from simfile.timing.engine import EventTag, TimingEngine  # noqa: E402

TAGS = [EventTag(t) for t in T.TAGS]
KINDS = ("bR", "bD", "S", "D", "W1", "W2", "W3")  # plus "W0" (see all_events) in the tiny-warp layer
TICK = Fraction(1, 48)

# grids: name -> (origin, step)
GRIDS = {
    "coarse": (Fraction(0), Fraction(1)),
    "fine": (Fraction(0), TICK),
    "shifted": (Fraction(1), Fraction(1)),
}

# value families: name -> (bpm cycle, stop values by grid point, delay values by grid point, dyadic?)
BPM_POOLS = [
    (Fraction(120), Fraction(240), Fraction(60)),
    (Fraction(60), Fraction(120), Fraction(240)),
    (Fraction(240), Fraction(60), Fraction(120)),
    (Fraction(96), Fraction(192), Fraction(48)),
    (Fraction(30), Fraction(480), Fraction(120)),
]


def family(name, seed=0):
    if name == "fast":
        # the upper end of the BPM range: a tick lasts well under a millisecond
        return {
            "bpms": (Fraction(1920), Fraction(960), Fraction(1536)),
            "stops": (Fraction(1, 2), Fraction(1, 64), Fraction(1, 4), Fraction(1, 128)),
            "delays": (Fraction(1, 64), Fraction(1, 2), Fraction(1, 128), Fraction(1, 4)),
            "exact": True,
        }
    if name == "slow":
        # the lower end: one beat lasts up to a minute
        return {
            "bpms": (Fraction(1), Fraction(2), Fraction(15, 2)),
            "stops": (Fraction(1, 2), Fraction(1, 4), Fraction(1, 2), Fraction(1, 4)),
            "delays": (Fraction(1, 4), Fraction(1, 2), Fraction(1, 8), Fraction(1, 4)),
            "exact": True,
        }
    if name == "dyadic":
        return {
            "bpms": BPM_POOLS[seed % len(BPM_POOLS)],
            "stops": (Fraction(1, 2), Fraction(1, 4), Fraction(1, 2), Fraction(1, 4)),
            "delays": (Fraction(1, 4), Fraction(1, 2), Fraction(1, 8), Fraction(1, 4)),
            "exact": True,
        }
    return {
        "bpms": (Fraction("181.685"), Fraction("90.8425"), Fraction("363.37")),
        "stops": (Fraction("0.333"), Fraction("0.1"), Fraction("0.333"), Fraction("0.7")),
        "delays": (Fraction("0.1"), Fraction("0.333"), Fraction("0.05"), Fraction("0.2")),
        "exact": False,
    }


TINY_WARP = Fraction(1, 100)  # a positive warp length that snaps to zero ticks


def all_events(grid, tiny=False):
    """tiny: the list starts with a warp of TINY_WARP beats at each grid point (kind 'W0')."""
    evs = [(g, "W0") for g in range(4)] if tiny else []
    for g in range(4):
        for k in KINDS:
            if k in ("bR", "bD") and g == 0 and GRIDS[grid][0] == 0:
                continue  # the BPM at beat 0 is the initial one
            evs.append((g, k))
    return evs


def compatible(events):
    """At most one BPM change and one warp per beat."""
    seen = set()
    for g, k in events:
        cls = (g, "b" if k[0] == "b" else "w" if k[0] == "W" else k)
        if cls in seen:
            return False
        seen.add(cls)
    return True


def event_sets(grid, max_events):
    """All compatible event sets of size <= max_events, in construction order (by size, then index)."""
    evs = all_events(grid)
    for n in range(max_events + 1):
        for sel in itertools.combinations(range(len(evs)), n):
            es = tuple(evs[i] for i in sel)
            if compatible(es):
                yield es


def concretize(grid, events, fam, offset=Fraction(0), extra_bpms=()):
    """
    Event set -> concrete lists.  extra_bpms: beats at which a *redundant* BPM change
    (repeating the BPM in force) is inserted in addition.
    """
    origin, step = GRIDS[grid]
    cycle = fam["bpms"]
    changes = []  # (beat, 'R'|'D')
    stops, delays, warps = [], [], []
    for g, k in sorted(events):
        beat = origin + g * step
        if k == "bR":
            changes.append((beat, "R"))
        elif k == "bD":
            changes.append((beat, "D"))
        elif k == "S":
            stops.append((beat, fam["stops"][g]))
        elif k == "D":
            delays.append((beat, fam["delays"][g]))
        elif k == "W0":
            warps.append((beat, TINY_WARP))
        else:
            warps.append((beat, int(k[1]) * step))
    for b in extra_bpms:
        changes.append((Fraction(b), "R"))
    changes.sort()
    bpms = [(Fraction(0), cycle[0])]
    idx = 0
    for beat, how in changes:
        if how == "D":
            idx = (idx + 1) % len(cycle)
        bpms.append((beat, cycle[idx]))
    return {"bpms": bpms, "stops": stops, "delays": delays, "warps": warps, "offset": Fraction(offset)}


def dec(fr):
    """Exact decimal string of a fraction with a finite decimal expansion (integer arithmetic only: independent of the decimal context)."""
    fr = Fraction(fr)
    sign = "-" if fr < 0 else ""
    n, d = abs(fr.numerator), fr.denominator
    digits = 0
    while d % 10 == 0 or (10 ** digits * n) % d != 0:
        digits += 1
        if digits > 60:
            raise AssertionError((fr, "no finite decimal expansion"))
        if (10 ** digits * n) % d == 0:
            break
    digits = max(digits, 3)
    scaled = (10 ** digits * n) // d
    assert Fraction(scaled, 10 ** digits) == abs(fr), fr
    s_ = str(scaled).rjust(digits + 1, "0")
    return f"{sign}{s_[:-digits]}.{s_[-digits:]}"


def beat_str(b):
    return f"{float(b):.3f}"


def length_str(v):
    """A warp length: three decimals as StepMania writes them, or - when that would not be exact and the length has a finite decimal expansion (a multiple of 1/32, say) - all its digits."""
    v = Fraction(v)
    if Fraction(beat_str(v)) == v:
        return beat_str(v)
    d = v.denominator
    while d % 2 == 0:
        d //= 2
    while d % 5 == 0:
        d //= 5
    return dec(v) if d == 1 else beat_str(v)


def ssc_text(tl):
    exact_lengths = bool(tl.get("exact_lengths"))

    def lst(pairs, length=False):
        # warp lengths are written with three decimals, as StepMania does (so most of them are *not* exact tick
        # multiples in the text and get snapped on reading) - except in timelines that ask for all digits
        return ",\n".join(f"{beat_str(b)}={(length_str(v) if exact_lengths else beat_str(v)) if length else dec(v)}" for b, v in pairs)

    return (
        "#VERSION:0.83;\n"
        f"#OFFSET:{dec(tl['offset'])};\n"
        f"#BPMS:{lst(tl['bpms'])};\n"
        f"#STOPS:{lst(tl['stops'])};\n"
        f"#DELAYS:{lst(tl['delays'])};\n"
        f"#WARPS:{lst(tl['warps'], length=True)};\n"
    )


def build(tl):
    """(model timeline, real engine built through the real path from SSC text)"""
    model = T.Timeline(tl["bpms"], tl["stops"], tl["delays"], tl["warps"], tl["offset"])
    sf = SSCSimfile(string=ssc_text(tl))
    engine = TimingEngine(TimingData(sf))
    return model, engine


def timing_snapshot(td):
    """The caller-visible content of a TimingData object, as exact fractions."""
    return tuple(tuple((Fraction(e.beat), Fraction(e.value)) for e in getattr(td, k)) for k in ("bpms", "stops", "delays", "warps")) + (Fraction(td.offset),)


def timing_snapshot_of_tl(tl):
    return tuple(tuple((Fraction(b), Fraction(v)) for b, v in tl[k]) for k in ("bpms", "stops", "delays", "warps")) + (Fraction(tl["offset"]),)


def to_beat(fr):
    return Beat(fr.numerator, fr.denominator)


def query_beats(grid):
    origin, step = GRIDS[grid]
    qs = set()
    for k in range(-1, 8):
        qs.add(origin + k * step)
    for k in range(0, 7):
        qs.add(origin + k * step + step / 2)
    if step > TICK:
        for k in range(0, 7):
            qs.add(origin + k * step - TICK)
            qs.add(origin + k * step + TICK)
    qs.update([Fraction(-1), -TICK, Fraction(0), origin + 9 * step, Fraction(10)])
    return sorted(qs)


def fmt_tl(tl):
    out = {
        k: ([[str(b), str(v)] for b, v in tl[k]] if k != "offset" else str(tl[k]))
        for k in ("bpms", "stops", "delays", "warps", "offset")
    }
    if tl.get("exact_lengths"):
        out["exact_lengths"] = True
    return out


def parse_tl(js):
    out = {
        k: ([(Fraction(b), Fraction(v)) for b, v in js[k]] if k != "offset" else Fraction(js[k]))
        for k in ("bpms", "stops", "delays", "warps", "offset")
    }
    if js.get("exact_lengths"):
        out["exact_lengths"] = True
    return out


def corpus_timelines():
    """(name, timeline dict) for every corpus simfile and every chart with split timing."""
    import os
    import simfile

    out = []
    base = os.path.join(core.SRC, "testdata")
    for rel in ("nekonabe/nekonabe.sm", "Springtime/Springtime.ssc", "L9/L9.ssc"):
        path = os.path.join(base, rel)
        if not os.path.exists(path):
            continue
        sf = simfile.open(path)
        srcs = [(rel, TimingData(sf))]
        for i, ch in enumerate(sf.charts):
            td = TimingData(sf, ch)
            srcs.append((f"{rel}#{i}", td))
        seen = set()
        for name, td in srcs:
            tl = {
                "bpms": [(Fraction(e.beat), Fraction(e.value)) for e in td.bpms],
                "stops": [(Fraction(e.beat), Fraction(e.value)) for e in td.stops],
                "delays": [(Fraction(e.beat), Fraction(e.value)) for e in td.delays],
                "warps": [(Fraction(e.beat), Fraction(e.value)) for e in td.warps],
                "offset": Fraction(td.offset),
            }
            key = repr(tl)
            if key in seen:
                continue
            seen.add(key)
            if any(v <= 0 for _, v in tl["bpms"]) or any(v <= 0 for _, v in tl["stops"]):
                continue  # negative BPMs / stops are outside the domain
            out.append((name, tl, td))
    return out


# ---------------------------------------------------------------------------
# special timelines: size, distance and magnitude rather than interleaving
# ---------------------------------------------------------------------------

def special_timelines(thorough=False):
    """
    (label, timeline dict, probe beats).  Hand-built members of the stated domain that no small grid reaches:
    many events at one instant, warps many measures long, events and queries thousands of beats out, BPMs and
    lengths with many digits or at the ends of the allowed range, offsets of an hour.
    """
    F = Fraction
    out = []

    def probes(tl, extra=()):
        pts = set(extra)
        for k in ("bpms", "stops", "delays", "warps"):
            for b, v in tl[k]:
                pts.update([b, b - TICK, b + TICK])
                if k == "warps":
                    pts.update([b + v, b + v - TICK, b + v + TICK, b + v / 2])
        pts.update([F(-1), F(0)])
        return sorted(pts)

    def add(label, bpms, stops=(), delays=(), warps=(), offset=F(0), extra=(), exact_lengths=False):
        tl = {"bpms": list(bpms), "stops": list(stops), "delays": list(delays), "warps": list(warps), "offset": F(offset)}
        if exact_lengths:
            tl["exact_lengths"] = True
        out.append((label, tl, probes(tl, extra)))

    # 1. a crowd of events inside one warp: k BPM changes (alternating values) every half beat of a 4-beat warp,
    #    alone, with a stop on the warp's first beat and a delay in its middle
    for k in (3, 6, 7) + ((8,) if thorough else ()):
        inner = [(F(4) + F(i + 1, 2), F(240) if i % 2 == 0 else F(60)) for i in range(k)]
        wlen = F(max(4, (k + 2) // 2 + 1))
        add(f"{k} BPM changes inside one warp", [(F(0), F(120))] + inner, warps=[(F(4), wlen)])
        add(f"{k} BPM changes, a stop and a delay inside one warp", [(F(0), F(120))] + inner, stops=[(F(4), F(1, 2))], delays=[(F(5), F(1, 4))], warps=[(F(4), wlen)])
    # 2. long warps (crossing several bar lines), one with events in the middle
    for ln in (8, 20):
        add(f"warp of {ln} beats", [(F(0), F(120))], warps=[(F(2), F(ln))], extra=[F(b) for b in range(0, ln + 6)])
        add(f"warp of {ln} beats with a stop and a BPM change in the middle", [(F(0), F(120)), (F(2 + ln // 2), F(240))], stops=[(F(1 + ln // 2), F(1, 2))], warps=[(F(2), F(ln))],
            extra=[F(b) for b in range(0, ln + 6)])
    # 3. far out: queries and events thousands of beats away, BPMs with many digits / at the ends of the range
    far = [F(133), F(486), F(667), F(757), F(1000), F(2334), F(8000), F(8000) + TICK, F(20000)]
    add("single BPM 140, far queries", [(F(0), F(140))], extra=far)
    add("BPM 133.33333333 from beat 4, far queries", [(F(0), F(120)), (F(4), F("133.33333333"))], extra=far)
    add("BPM 1000.001, far queries", [(F(0), F("1000.001"))], extra=far)
    add("BPM 128.010 (not a multiple of 1/48), far queries", [(F(0), F("128.010"))], extra=far)
    add("BPM 181.685 with a stop at beat 700", [(F(0), F("181.685"))], stops=[(F(700), F("0.333"))], extra=far)
    add("BPM 2000 then BPM 1", [(F(0), F(2000)), (F(1000), F(1))], stops=[(F(999), F("12.345678"))], extra=far)
    add("offset of minus one hour at 175 BPM", [(F(0), F(175))], offset=F(-3600), extra=[F(1), F(2), F(100)] + far[:4])
    add("offset of plus one hour, warp far out", [(F(0), F(150))], warps=[(F(4000), F(16))], offset=F(3600), extra=far + [F(4008), F(4016), F(4017)])
    add("events far apart", [(F(0), F(120)), (F(5000), F(90))], stops=[(F(2500), F(3))], delays=[(F(7500), F("0.5"))], warps=[(F(6000), F(4))], extra=far)
    # 4. knife edges: warp lengths exactly half-way between two ticks (1.5, 4.5, 7.5 ticks: ties go to the even tick),
    #    BPM changes that differ only beyond double precision, scientific notation
    for ln in (F(1, 32), F(3, 32), F(5, 32)):
        add(f"warp of {float(ln * 48)} ticks", [(F(0), F(120))], warps=[(F(0), ln)], extra=[F(k, 48) for k in range(0, 12)], exact_lengths=True)
        add(f"warp of {float(ln * 48)} ticks at beat 1 with a stop behind it", [(F(0), F(60))], stops=[(F(1) + F(round(ln * 48), 48), F(1, 2))], warps=[(F(1), ln)],
            extra=[F(1) + F(k, 48) for k in range(0, 12)], exact_lengths=True)
    add("BPM changes that are equal as floats", [(F(0), F(120)), (F(4), F("120.00000000000000001")), (F(8), F("119.99999999999999999"))], extra=[F(3), F(4), F(5), F(8), F(9)])
    return out
