"""Shared timeline space for C11, C12, C13: event alphabet, grids, engine construction."""
import itertools
from decimal import Decimal
from fractions import Fraction

from .. import core
from ..models import timeline as T

core.import_simfile()
from simfile.ssc import SSCSimfile  # noqa: E402
from simfile.timing import Beat, TimingData  # noqa: E402
from simfile.timing.engine import EventTag, TimingEngine  # noqa: E402

TAGS = [EventTag(t) for t in T.TAGS]
KINDS = ("bR", "bD", "S", "D", "W1", "W2", "W3")  # plus "W0" (see all_events) in the tiny-warp layer
TICK = Fraction(1, 48)

# grids: name -> (origin, step)
GRIDS = {
    "coarse": (Fraction(0), Fraction(1)),
    "fine": (Fraction(0), TICK),
    "shifted": (Fraction(1), Fraction(1)),
}

# value families: name -> (bpm cycle, stop values by grid point, delay values by grid point, dyadic?)
BPM_POOLS = [
    (Fraction(120), Fraction(240), Fraction(60)),
    (Fraction(60), Fraction(120), Fraction(240)),
    (Fraction(240), Fraction(60), Fraction(120)),
    (Fraction(96), Fraction(192), Fraction(48)),
    (Fraction(30), Fraction(480), Fraction(120)),
]


def family(name, seed=0):
    if name == "fast":
        # the upper end of the BPM range: a tick lasts well under a millisecond
        return {
            "bpms": (Fraction(1920), Fraction(960), Fraction(1536)),
            "stops": (Fraction(1, 2), Fraction(1, 64), Fraction(1, 4), Fraction(1, 128)),
            "delays": (Fraction(1, 64), Fraction(1, 2), Fraction(1, 128), Fraction(1, 4)),
            "exact": True,
        }
    if name == "slow":
        # the lower end: one beat lasts up to a minute
        return {
            "bpms": (Fraction(1), Fraction(2), Fraction(15, 2)),
            "stops": (Fraction(1, 2), Fraction(1, 4), Fraction(1, 2), Fraction(1, 4)),
            "delays": (Fraction(1, 4), Fraction(1, 2), Fraction(1, 8), Fraction(1, 4)),
            "exact": True,
        }
    if name == "dyadic":
        return {
            "bpms": BPM_POOLS[seed % len(BPM_POOLS)],
            "stops": (Fraction(1, 2), Fraction(1, 4), Fraction(1, 2), Fraction(1, 4)),
            "delays": (Fraction(1, 4), Fraction(1, 2), Fraction(1, 8), Fraction(1, 4)),
            "exact": True,
        }
    return {
        "bpms": (Fraction("181.685"), Fraction("90.8425"), Fraction("363.37")),
        "stops": (Fraction("0.333"), Fraction("0.1"), Fraction("0.333"), Fraction("0.7")),
        "delays": (Fraction("0.1"), Fraction("0.333"), Fraction("0.05"), Fraction("0.2")),
        "exact": False,
    }


TINY_WARP = Fraction(1, 100)  # a positive warp length that snaps to zero ticks


def all_events(grid, tiny=False):
    """tiny: the list starts with a warp of TINY_WARP beats at each grid point (kind 'W0')."""
    evs = [(g, "W0") for g in range(4)] if tiny else []
    for g in range(4):
        for k in KINDS:
            if k in ("bR", "bD") and g == 0 and GRIDS[grid][0] == 0:
                continue  # the BPM at beat 0 is the initial one
            evs.append((g, k))
    return evs


def compatible(events):
    """At most one BPM change and one warp per beat."""
    seen = set()
    for g, k in events:
        cls = (g, "b" if k[0] == "b" else "w" if k[0] == "W" else k)
        if cls in seen:
            return False
        seen.add(cls)
    return True


def event_sets(grid, max_events):
    """All compatible event sets of size <= max_events, in construction order (by size, then index)."""
    evs = all_events(grid)
    for n in range(max_events + 1):
        for sel in itertools.combinations(range(len(evs)), n):
            es = tuple(evs[i] for i in sel)
            if compatible(es):
                yield es


def concretize(grid, events, fam, offset=Fraction(0), extra_bpms=()):
    """
    Event set -> concrete lists.  extra_bpms: beats at which a *redundant* BPM change
    (repeating the BPM in force) is inserted in addition.
    """
    origin, step = GRIDS[grid]
    cycle = fam["bpms"]
    changes = []  # (beat, 'R'|'D')
    stops, delays, warps = [], [], []
    for g, k in sorted(events):
        beat = origin + g * step
        if k == "bR":
            changes.append((beat, "R"))
        elif k == "bD":
            changes.append((beat, "D"))
        elif k == "S":
            stops.append((beat, fam["stops"][g]))
        elif k == "D":
            delays.append((beat, fam["delays"][g]))
        elif k == "W0":
            warps.append((beat, TINY_WARP))
        else:
            warps.append((beat, int(k[1]) * step))
    for b in extra_bpms:
        changes.append((Fraction(b), "R"))
    changes.sort()
    bpms = [(Fraction(0), cycle[0])]
    idx = 0
    for beat, how in changes:
        if how == "D":
            idx = (idx + 1) % len(cycle)
        bpms.append((beat, cycle[idx]))
    return {"bpms": bpms, "stops": stops, "delays": delays, "warps": warps, "offset": Fraction(offset)}


def dec(fr):
    """Exact decimal string of a fraction with a finite decimal expansion."""
    d = Decimal(fr.numerator) / Decimal(fr.denominator)
    s = format(d, "f")
    assert Fraction(s) == fr, (fr, s)
    return s


def beat_str(b):
    return f"{float(b):.3f}"


def ssc_text(tl):
    def lst(pairs, length=False):
        return ",\n".join(f"{beat_str(b)}={beat_str(v) if length else dec(v)}" for b, v in pairs)

    return (
        "#VERSION:0.83;\n"
        f"#OFFSET:{dec(tl['offset'])};\n"
        f"#BPMS:{lst(tl['bpms'])};\n"
        f"#STOPS:{lst(tl['stops'])};\n"
        f"#DELAYS:{lst(tl['delays'])};\n"
        f"#WARPS:{lst(tl['warps'], length=True)};\n"
    )


def build(tl):
    """(model timeline, real engine built through the real path from SSC text)"""
    model = T.Timeline(tl["bpms"], tl["stops"], tl["delays"], tl["warps"], tl["offset"])
    sf = SSCSimfile(string=ssc_text(tl))
    engine = TimingEngine(TimingData(sf))
    return model, engine


def timing_snapshot(td):
    """The caller-visible content of a TimingData object, as exact fractions."""
    return tuple(tuple((Fraction(e.beat), Fraction(e.value)) for e in getattr(td, k)) for k in ("bpms", "stops", "delays", "warps")) + (Fraction(td.offset),)


def timing_snapshot_of_tl(tl):
    return tuple(tuple((Fraction(b), Fraction(v)) for b, v in tl[k]) for k in ("bpms", "stops", "delays", "warps")) + (Fraction(tl["offset"]),)


def to_beat(fr):
    return Beat(fr.numerator, fr.denominator)


def query_beats(grid):
    origin, step = GRIDS[grid]
    qs = set()
    for k in range(-1, 8):
        qs.add(origin + k * step)
    for k in range(0, 7):
        qs.add(origin + k * step + step / 2)
    if step > TICK:
        for k in range(0, 7):
            qs.add(origin + k * step - TICK)
            qs.add(origin + k * step + TICK)
    qs.update([Fraction(-1), -TICK, Fraction(0), origin + 9 * step, Fraction(10)])
    return sorted(qs)


def fmt_tl(tl):
    return {
        k: ([[str(b), str(v)] for b, v in tl[k]] if k != "offset" else str(tl[k]))
        for k in ("bpms", "stops", "delays", "warps", "offset")
    }


def parse_tl(js):
    return {
        k: ([(Fraction(b), Fraction(v)) for b, v in js[k]] if k != "offset" else Fraction(js[k]))
        for k in ("bpms", "stops", "delays", "warps", "offset")
    }


def corpus_timelines():
    """(name, timeline dict) for every corpus simfile and every chart with split timing."""
    import os
    import simfile

    out = []
    base = os.path.join(core.SRC, "testdata")
    for rel in ("nekonabe/nekonabe.sm", "Springtime/Springtime.ssc", "L9/L9.ssc"):
        path = os.path.join(base, rel)
        if not os.path.exists(path):
            continue
        sf = simfile.open(path)
        srcs = [(rel, TimingData(sf))]
        for i, ch in enumerate(sf.charts):
            td = TimingData(sf, ch)
            srcs.append((f"{rel}#{i}", td))
        seen = set()
        for name, td in srcs:
            tl = {
                "bpms": [(Fraction(e.beat), Fraction(e.value)) for e in td.bpms],
                "stops": [(Fraction(e.beat), Fraction(e.value)) for e in td.stops],
                "delays": [(Fraction(e.beat), Fraction(e.value)) for e in td.delays],
                "warps": [(Fraction(e.beat), Fraction(e.value)) for e in td.warps],
                "offset": Fraction(td.offset),
            }
            key = repr(tl)
            if key in seen:
                continue
            seen.add(key)
            if any(v <= 0 for _, v in tl["bpms"]) or any(v <= 0 for _, v in tl["stops"]):
                continue  # negative BPMs / stops are outside the domain
            out.append((name, tl, td))
    return out
