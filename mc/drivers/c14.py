"""
C14 - beats are exact fractions that snap to the 1/48 grid only from inexact input.

Product enumeration (odometer): every tick multiple in a range (text round trip),
decimal strings / floats on fine lattices (snapping), all ordered pairs of a set of
rationals under every operator and operand-type combination (exactness and type),
event lists and whitespace arrangements for BeatValues, TimingData attribute sources.
"""
import itertools
import re
from decimal import Decimal
from fractions import Fraction

from .. import core

core.import_simfile()
from simfile.sm import SMSimfile  # noqa: E402
from simfile.ssc import SSCSimfile  # noqa: E402
from simfile.timing import Beat, BeatValue, BeatValues, TimingData  # noqa: E402

from simfile.timing.engine import SongTime  # noqa: E402

LEVEL = "model_checking"
THREE_DEC = re.compile(r"^-?\d+\.\d{3}$")
HALF_TICK = Fraction(1, 96)


def fails_of(*items):
    return [dict(clause=c, expected=core.jsonable(e), observed=core.jsonable(o)) for c, e, o in items]


# -- 1. tick grid: text round trip ----------------------------------------------


def check_tick(k):
    want = Fraction(k, 48)
    out = []
    try:
        b = Beat(k, 48)
        if type(b) is not Beat or b != want:
            out.append(("Beat(numerator, denominator) is not exactly that rational", str(want), repr(b)))
        s = str(b)
        if not THREE_DEC.match(s):
            out.append(("str(beat) is not a three-decimal form", "d.ddd", s))
        elif abs(Fraction(s) - want) > Fraction(1, 2000):
            out.append(("three-decimal form is further than 0.0005 from the beat (not injective on the grid)", str(want), s))
        for label, back in (
            ("Beat.from_str(str(b))", Beat.from_str(s)),
            ("Beat(str(b))", Beat(s)),
            ("Beat(float(b))", Beat(float(b))),
            ("Beat(Decimal(str(b)))", Beat(Decimal(s))),
        ):
            if back != want or type(back) is not Beat:
                out.append((f"{label} does not return the same tick-aligned beat", str(want), repr(back)))
    except core.WatchdogTimeout:
        raise
    except Exception as e:
        out.append(("beat text round trip raised", str(want), f"{type(e).__name__}: {e}"))
    return fails_of(*out)


# -- 2. snapping -----------------------------------------------------------------


class _Str(str):
    pass


class _Dec(Decimal):
    pass


class _Flt(float):
    pass


def check_snap(kind, arg):
    """kind in str/float/decimal; the result must be a tick multiple within 1/96 of the input."""
    out = []
    try:
        if kind == "str":
            exact = Fraction(arg)
            results = [("Beat(str)", Beat(arg)), ("Beat.from_str", Beat.from_str(arg))]
        elif kind == "decimal":
            exact = Fraction(arg)
            results = [("Beat(Decimal)", Beat(Decimal(arg))), ("Beat.from_str(Decimal str)", Beat.from_str(arg))]
        else:
            exact = Fraction(arg)  # exact value of the float
            results = [("Beat(float)", Beat(arg))]
        # instances of subclasses of the inexact types are inexact input all the same (the library's own SongTime is one)
        if kind == "str":
            results.append(("Beat(str subclass)", Beat(_Str(arg))))
        elif kind == "decimal":
            results.append(("Beat(Decimal subclass)", Beat(_Dec(arg))))
        else:
            results += [("Beat(SongTime)", Beat(SongTime(arg))), ("Beat(float subclass)", Beat(_Flt(arg)))]
        for label, r in results:
            fr = Fraction(r)
            if type(r) is not Beat:
                out.append((f"{label} is not a Beat", "Beat", type(r).__name__))
            elif 48 % fr.denominator != 0:
                out.append((f"{label} is not a multiple of 1/48", "tick multiple", str(fr)))
            elif abs(fr - exact) > HALF_TICK:
                out.append((f"{label} is not the nearest tick (more than 1/96 away)", str(exact), str(fr)))
    except core.WatchdogTimeout:
        raise
    except Exception as e:
        out.append(("snapping raised", repr(arg), f"{type(e).__name__}: {e}"))
    return fails_of(*out)


# -- 3. exactness and type -------------------------------------------------------

DENOMS = (1, 2, 3, 4, 5, 7, 32, 48, 64, 96, 192, 1000)
RATIONALS = sorted({Fraction(n, d) for n in range(-6, 7) for d in DENOMS})
OPS = ("+", "-", "*", "/", "%", "divmod")
# magnitudes: numerators and denominators in the thousands, millions and beyond (exactness must not depend on size)
BIG = [Fraction(1, 1000), Fraction(1001), Fraction(1000001), Fraction(1, 1000001), Fraction(123456789, 1000), Fraction(-98765, 4321),
       Fraction(10**12 + 1, 48), Fraction(1, 10**9), Fraction(2**40, 3), Fraction(-(10**18) - 1, 7)]


def apply(op, a, b):
    if op == "+":
        return a + b
    if op == "-":
        return a - b
    if op == "*":
        return a * b
    if op == "/":
        return a / b
    if op == "%":
        return a % b
    return divmod(a, b)


def check_pair(x, y):
    """x, y Fractions; every operator under every operand-type combination."""
    out = []
    combos = [("Beat,Beat", Beat(x), Beat(y)), ("Beat,Fraction", Beat(x), y), ("Fraction,Beat", x, Beat(y))]
    if y.denominator == 1:
        combos.append(("Beat,int", Beat(x), int(y)))
    if x.denominator == 1:
        combos.append(("int,Beat", int(x), Beat(y)))
    for label, a, b in combos:
        for op in OPS:
            if op in ("/", "%", "divmod") and y == 0:
                continue
            want = apply(op, x, y)
            try:
                got = apply(op, a, b)
            except core.WatchdogTimeout:
                raise
            except Exception as e:
                out.append((f"{label} {op} raised", str(want), f"{type(e).__name__}: {e}"))
                continue
            if op == "divmod":
                ok = (
                    isinstance(got, tuple) and len(got) == 2 and got[0] == want[0] and got[1] == want[1]
                    and type(got[1]) is Beat and isinstance(got[0], int)
                )
            else:
                ok = got == want and type(got) is Beat
            if not ok:
                out.append((f"{label}: x {op} y is not exact rational arithmetic returning a Beat", f"Beat({want})", repr(got) + " : " + type(got).__name__))
    return fails_of(*out)


def check_unary(x):
    out = []
    b = Beat(x)
    for label, got, want in (("-b", -b, -x), ("+b", +b, +x), ("abs(b)", abs(b), abs(x))):
        if got != want or type(got) is not Beat:
            out.append((f"{label} is not exact / not a Beat", str(want), repr(got)))
    # constructors
    for label, got in (
        ("Beat(Fraction)", Beat(x)),
        ("Beat(num, den)", Beat(x.numerator, x.denominator)),
        ("Beat(Beat)", Beat(Beat(x))),
        ("Beat(Fraction, 1)", Beat(x, 1)),
    ):
        if got != x or type(got) is not Beat:
            out.append((f"{label} is not exactly that rational", str(x), repr(got)))
    if x.denominator == 1:
        got = Beat(int(x))
        if got != x or type(got) is not Beat:
            out.append(("Beat(int) is not exactly that integer", str(x), repr(got)))
    return fails_of(*out)


# -- 4. BeatValues ----------------------------------------------------------------

VALUE_STRS = ("0.000001", "1000", "1E+3", "120", "0.5", "-0.25", "60.000", "123.456789")
# values with ten and more significant digits (exact decimals whatever their length)
VALUE_STRS_LONG = ("1000.000001", "123456.789012345", "0.00000000000001", "99999999999.999", "1E-12", "12345678901234567890.5",
                   "150.00000000000000000000000001", "0.1234567891")
PADS = ("", " ", "\n", "\r\n ")


def event_beats(seed):
    odd = (193, 4021 % 960 + 1, 577, 95)[seed % 4]
    return (Fraction(0), Fraction(1, 48), Fraction(1, 2), Fraction(odd, 48), Fraction(1000))


def check_events(events):
    """events: list of (beat Fraction, value str)"""
    out = []
    try:
        bv = BeatValues([BeatValue(Beat(b), Decimal(v)) for b, v in events])
        text = str(bv)
        back = BeatValues.from_str(text)
        want = [(b, Decimal(v)) for b, v in events]
        got = [(Fraction(e.beat), e.value) for e in back]
        if got != want or any(type(e.value) is not Decimal or type(e.beat) is not Beat or type(e) is not BeatValue for e in back):
            out.append(("event list written out and parsed back is changed", want, got))
        if str(back) != text:
            out.append(("second serialization of the event list differs", text, str(back)))
        for e, (b, v) in zip(back, events):
            if e.value.as_tuple() != Decimal(v).as_tuple() and e.value != Decimal(v):
                out.append(("value not kept as an exact decimal", v, str(e.value)))
    except core.WatchdogTimeout:
        raise
    except Exception as e:
        out.append(("BeatValues round trip raised", events, f"{type(e).__name__}: {e}"))
    return fails_of(*out)


def check_padding(rows, pads):
    """rows: list of 'beat=value' strings; pads: list of (before, after) per row."""
    out = []
    text = ",".join(b + r + a for r, (b, a) in zip(rows, pads))
    plain = ",".join(rows)
    try:
        got = [(Fraction(e.beat), e.value) for e in BeatValues.from_str(text)]
        want = [(Fraction(e.beat), e.value) for e in BeatValues.from_str(plain)]
        model = []
        for r in rows:
            b, v = r.split("=")
            model.append((Fraction(round(Fraction(b) * 48), 48), Decimal(v)))
        if got != want or got != model:
            out.append(("blanks / line breaks around rows change the parsed events", model, got))
    except core.WatchdogTimeout:
        raise
    except Exception as e:
        out.append(("parsing a timing string with blanks around rows raised", text, f"{type(e).__name__}: {e}"))
    return fails_of(*out)


def check_blank(s):
    try:
        got = list(BeatValues.from_str(s))
    except core.WatchdogTimeout:
        raise
    except Exception as e:
        return fails_of(("blank timing string raised", [], f"{type(e).__name__}: {e}"))
    return fails_of(("blank timing string does not give an empty list", [], got)) if got else []


# -- 5. TimingData sources -----------------------------------------------------------

TD_STRINGS = {
    "BPMS": (None, "", "0.000=120.000", "0.000=120.000,\n4.021=60.5", " 0=90 ,\r\n 1.5=180.25 ", "-0.000=1.2E+2,\n1e1=6e1,\n10.333=0.000001"),
    "STOPS": (None, "", "2.000=0.500", "1.021=0.250,\n8=1"),
    "DELAYS": (None, "", "3.000=0.125"),
    "WARPS": (None, "", "4.000=2.000,\n16.5=0.021"),
    "OFFSET": (None, "", "0.000000", "-0.125", "1.5"),
}


def model_events(s):
    if s is None or not s.strip():
        return []
    out = []
    for row in s.split(","):
        b, v = row.strip().split("=")
        out.append((Fraction(round(Fraction(b) * 48), 48), Decimal(v)))
    return out


def check_td(kind, vals, freezes=False):
    out = []
    text = "#VERSION:0.83;\n" if kind == "ssc" else ""
    for key in ("BPMS", "STOPS", "DELAYS", "WARPS", "OFFSET"):
        v = vals[key]
        if v is not None:
            k = "FREEZES" if (key == "STOPS" and freezes is True) else key
            if key == "STOPS" and freezes == "both":
                # a leftover FREEZES next to STOPS: the standard key wins
                text += "#FREEZES:99.000=9.999;\n"
            text += f"#{k}:{v};\n"
    try:
        sf = (SSCSimfile if kind == "ssc" else SMSimfile)(string=text)
        td = TimingData(sf)
        for key, attr in (("BPMS", td.bpms), ("STOPS", td.stops), ("DELAYS", td.delays), ("WARPS", td.warps)):
            got = [(Fraction(e.beat), e.value) for e in attr]
            if got != model_events(vals[key]) or type(attr) is not BeatValues:
                out.append((f"TimingData.{key.lower()} differs from the simfile's {key} string", model_events(vals[key]), got))
        want_off = Decimal(vals["OFFSET"]) if vals["OFFSET"] else Decimal(0)
        if td.offset != want_off or type(td.offset) is not Decimal:
            out.append(("TimingData.offset differs from the simfile's OFFSET (absent/empty -> 0)", str(want_off), repr(td.offset)))
    except core.WatchdogTimeout:
        raise
    except Exception as e:
        out.append(("TimingData raised", text, f"{type(e).__name__}: {e}"))
    return fails_of(*out)


def check_case(case):
    k = case["kind"]
    if k == "strctx":
        b = Beat(case["tick"], 48)
        want = str(b)
        with core.decimal_precision(case["prec"]):
            got = str(b)
        return [] if got == want else [{"clause": "str(Beat) depends on the decimal context", "expected": want, "observed": got}]
    if k == "tick":
        return check_tick(case["k"])
    if k == "snap":
        arg = case["arg"]
        return check_snap(case["how"], float.fromhex(arg) if case["how"] == "float" else arg)
    if k == "pair":
        return check_pair(Fraction(case["x"]), Fraction(case["y"]))
    if k == "unary":
        return check_unary(Fraction(case["x"]))
    if k == "events":
        return check_events([(Fraction(b), v) for b, v in case["events"]])
    if k == "padding":
        return check_padding(case["rows"], [tuple(p) for p in case["pads"]])
    if k == "blank":
        return check_blank(case["s"])
    if k == "td":
        return check_td(case["sf"], case["vals"], case.get("freezes", False))
    raise core.MachineryError("unknown case")


def run_case(acc, layer, case, nontrivial=True):
    core.guard_cheap(acc, case)
    fails = check_case(case)
    acc.count("evaluations")
    acc.count("states")
    acc.count("transitions")
    if nontrivial:
        acc.count("nontrivial")
    for f in fails:
        acc.violation(f["clause"], case, f["expected"], f["observed"], signature=(layer, f["clause"]))


def explore_shard(acc, shard):
    kind = shard[0]
    if kind == "ticks":
        _, lo, hi = shard
        for k in range(lo, hi):
            run_case(acc, "ticks", {"kind": "tick", "k": k}, nontrivial=(k % 48 != 0))
        acc.sample("1 tick grid", {"kind": "tick", "k": hi - 1, "beat": str(Fraction(hi - 1, 48))})
    elif kind == "snap-str":
        _, scale, lo, hi = shard
        digits = len(str(scale)) - 1
        for k in range(lo, hi):
            s = f"{'-' if k < 0 else ''}{abs(k) // scale}.{abs(k) % scale:0{digits}d}"
            run_case(acc, "snap", {"kind": "snap", "how": "str" if k % 2 else "decimal", "arg": s})
            if (Fraction(s) * 96) % 2 == 1:
                acc.outcome("exact tie between two ticks")
        acc.sample("2 snapping", {"kind": "snap", "how": "str", "arg": s})
    elif kind == "snap-float":
        _, den, lo, hi = shard
        for n in range(lo, hi):
            x = n / den
            run_case(acc, "snap", {"kind": "snap", "how": "float", "arg": x.hex()})
            if (Fraction(x) * 96) % 2 == 1:
                acc.outcome("exact tie between two ticks")
        acc.sample("2 snapping", {"kind": "snap", "how": "float", "arg": x.hex(), "value": x})
    elif kind == "pairs":
        _, xi = shard
        x = RATIONALS[xi]
        run_case(acc, "arith", {"kind": "unary", "x": str(x)})
        for y in RATIONALS:
            run_case(acc, "arith", {"kind": "pair", "x": str(x), "y": str(y)})
        acc.sample("3 arithmetic", {"kind": "pair", "x": str(x), "y": str(RATIONALS[-1])})
    elif kind == "strctx":
        # writing a beat does not depend on the thread's decimal context
        bad = None
        for k in list(range(-60, 200)) + [480001, 47999, 4800001, 10**9 + 1, -480001]:
            b = Beat(k, 48)
            want = str(b)
            for prec in (2, 3, 6):
                with core.decimal_precision(prec):
                    got = str(b)
                    back = Beat.from_str(got) if got == want else None
                if got != want or back != b:
                    bad = (k, prec, want, got)
                    break
            acc.count("states")
            acc.count("transitions")
            acc.count("evaluations", 3)
            if bad:
                break
        acc.outcome("beat written under a low-precision decimal context")
        if bad:
            acc.violation("str(Beat) depends on the decimal context", {"kind": "strctx", "tick": bad[0], "prec": bad[1]}, bad[2], bad[3], signature=("strctx",))
        acc.sample("1 tick grid", {"kind": "strctx"})
    elif kind == "bigpairs":
        small = [r for r in RATIONALS if r.denominator in (1, 3, 48, 1000) and abs(r.numerator) in (1, 5)]
        for x in BIG:
            run_case(acc, "arith", {"kind": "unary", "x": str(x)})
            for y in BIG + small:
                run_case(acc, "arith", {"kind": "pair", "x": str(x), "y": str(y)})
                run_case(acc, "arith", {"kind": "pair", "x": str(y), "y": str(x)})
        acc.outcome("operands with large numerators / denominators")
        acc.sample("3 arithmetic", {"kind": "pair", "x": str(BIG[0]), "y": str(BIG[1])})
    elif kind == "longvalues":
        _, seed = shard
        beats = event_beats(seed)
        for v in VALUE_STRS_LONG:
            run_case(acc, "events", {"kind": "events", "events": [[str(beats[0]), v]]})
            for v2 in VALUE_STRS_LONG + VALUE_STRS[:3]:
                run_case(acc, "events", {"kind": "events", "events": [[str(beats[0]), v], [str(beats[3]), v2]]})
                run_case(acc, "events", {"kind": "events", "events": [[str(beats[1]), v2], [str(beats[4]), v]]})
        acc.outcome("event value with ten or more significant digits")
        acc.sample("4 event lists", {"kind": "events", "events": [[str(beats[0]), VALUE_STRS_LONG[1]]]})
    elif kind == "events":
        _, first, maxlen, seed = shard
        evs = [(b, v) for b in event_beats(seed) for v in VALUE_STRS]
        if first is None:
            run_case(acc, "events", {"kind": "events", "events": []}, nontrivial=False)
            for s in ("", " ", "\n", " \r\n\t "):
                run_case(acc, "events", {"kind": "blank", "s": s}, nontrivial=False)
            acc.outcome("blank timing string")
        else:
            for n in range(0, maxlen):
                for rest in itertools.product(evs, repeat=n):
                    lst = [evs[first]] + list(rest)
                    run_case(acc, "events", {"kind": "events", "events": [[str(b), v] for b, v in lst]})
            acc.sample("4 event lists", {"kind": "events", "events": [[str(b), v] for b, v in lst]})
    elif kind == "padding":
        _, nrows = shard
        rows = ["0.000=120", "4.021=60.5", "1000=0.000001"][:nrows]
        for pads in itertools.product(itertools.product(PADS, PADS), repeat=nrows):
            run_case(acc, "padding", {"kind": "padding", "rows": rows, "pads": [list(p) for p in pads]})
        acc.sample("4 whitespace", {"kind": "padding", "rows": rows, "pads": [list(p) for p in pads]})
    elif kind == "td":
        _, sfk, bi = shard
        keys = ("STOPS", "DELAYS", "WARPS", "OFFSET")
        for combo in itertools.product(*(TD_STRINGS[k] for k in keys)):
            vals = dict(zip(keys, combo))
            vals["BPMS"] = TD_STRINGS["BPMS"][bi]
            for fz in ((False, True, "both") if sfk == "sm" and vals["STOPS"] is not None else (False,)):
                run_case(acc, "td", {"kind": "td", "sf": sfk, "vals": vals, "freezes": fz})
                if fz:
                    acc.outcome("SM stops spelled FREEZES")
        acc.sample("5 TimingData", {"kind": "td", "sf": sfk, "vals": vals})


def explore(run):
    shards = []
    rng = 20000 if run.thorough() else 2000
    lo, hi = -rng * 48, rng * 48 + 1
    step = (hi - lo) // 64 + 1
    for a in range(lo, hi, step):
        shards.append(("ticks", a, min(hi, a + step)))
    if run.thorough():
        for p in range(3, 8):
            for sgn in (1, -1):
                shards.append(("ticks", sgn * 10**p * 48 - 3, sgn * 10**p * 48 + 4))
    for scale in (1000, 10000, 100000):
        r = 48000 if run.thorough() else 12000
        st = (2 * r) // 16 + 1
        for a in range(-r, r + 1, st):
            shards.append(("snap-str", scale, a, min(r + 1, a + st)))
    for den in (960, 1024, 7):
        r = 48000 if run.thorough() else 12000
        st = (2 * r) // 16 + 1
        for a in range(-r, r + 1, st):
            shards.append(("snap-float", den, a, min(r + 1, a + st)))
    for xi in range(len(RATIONALS)):
        shards.append(("pairs", xi))
    nev = 5 * len(VALUE_STRS)
    shards.append(("events", None, 0, run.seed))
    for i in range(nev):
        shards.append(("events", i, 3 if run.thorough() else 2, run.seed))
    shards.append(("bigpairs",))
    shards.append(("strctx",))
    shards.append(("longvalues", run.seed))
    for n in (1, 2, 3):
        shards.append(("padding", n))
    for sfk in ("sm", "ssc"):
        for bi in range(len(TD_STRINGS["BPMS"])):
            shards.append(("td", sfk, bi))
    k = run.seed % len(shards)
    shards = shards[k:] + shards[:k]
    run.merge(core.pmap(explore_shard, shards, run.seed))
    acc = run.acc
    run.rule = (
        f"odometer products: every tick multiple in +-{rng} beats (text round trip, three-decimal form within 0.0005 => injective); "
        "decimal strings k/1000, k/10000, k/100000 and floats n/960, n/1024, n/7 (snapping to the nearest tick, ties either way); "
        f"all ordered pairs of {len(RATIONALS)} rationals (numerators -6..6 over denominators {DENOMS}) x 6 binary operators x 5 operand-type combinations, unary operators and constructors; "
        f"event lists of <= {3 if run.thorough() else 2} events over 5 beats x 8 decimal spellings; 16^n whitespace arrangements around n<=3 rows; "
        "TimingData over SM/SSC x BPMS/STOPS/DELAYS/WARPS/OFFSET string pools (absent, empty, padded) incl. FREEZES. "
        "A state is one enumerated point; non-trivial = not a whole beat / not the empty list."
        + " Magnitudes: 10 rationals with numerators / denominators of 10^3 .. 10^18 against each other and small ones under all operators and operand types; event values of 10 .. 29 significant digits."
    )
    run.assumptions = ["Python's fractions/decimal are the arithmetic reference", "exact ties between two ticks may round either way (Python rounds half to even)"]
    core.require(acc.outcomes["operands with large numerators / denominators"] > 0, "no big operands")
    core.require(acc.outcomes["event value with ten or more significant digits"] > 0, "no long values")
    core.require(acc.outcomes["exact tie between two ticks"] > 0, "no tie case")
    core.require(acc.outcomes["blank timing string"] > 0, "no blank string case")
    core.require(acc.outcomes["SM stops spelled FREEZES"] > 0, "no FREEZES case")
    return run.finish(
        states=acc.c["states"],
        transitions=acc.c["transitions"],
        evaluations=acc.c["evaluations"],
        distinct_nontrivial=acc.c["nontrivial"],
    )
