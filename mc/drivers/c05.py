"""
C05 - mutate saves exactly the edited simfile, in the encoding it was read in.

Layer E (detection): byte payloads embedded in a simfile x tried-encoding lists x
{.sm, .ssc}: the reported encoding is the first of the list under which the whole
file decodes, the loaded simfile is that decoded text, UnicodeDecodeError only when
none decodes.  Layer M (mutate): content class x extension x output name x backup
name x encoding list x filesystem x edit script; after the block the whole
filesystem is compared with the model, then a no-op mutate must leave the bytes
unchanged.
"""
import copy
import os
import itertools

from .. import core
from . import mutate_common as MU
from . import text_common as X

import simfile  # noqa: E402

LEVEL = "model_checking"

LISTS = {
    "default": None,
    "reversed": list(reversed(MU.ENCODINGS)),
    "cp932-utf8": ["cp932", "utf-8"],
    "ascii": ["ascii"],
    "cp949-cp1252": ["cp949", "cp1252"],
}


def outcome_obs(fn):
    try:
        return ("ok", X.observe(fn()))
    except core.WatchdogTimeout:
        raise
    except BaseException as e:
        return ("exc", type(e).__name__)


def check_detection(world, ext, data, list_name, explicit=None):
    """explicit: an encoding passed as simfile.open(encoding=...)"""
    fails = []
    world.reset({"in" + ext: data})
    path = world.path("in" + ext)
    tried = [explicit] if explicit else (LISTS[list_name] or MU.ENCODINGS)
    enc = MU.expected_encoding(data, tried)
    native = world.which == "nat"
    if enc is None:
        want = ("exc", "UnicodeDecodeError")
    else:
        want = outcome_obs(lambda: MU.parse_as(ext, data, enc, translate_newlines=native))
    if explicit:
        got = outcome_obs(lambda: simfile.open(path, encoding=explicit, filesystem=world.fs))
        got_enc = enc
    else:
        kw = {} if LISTS[list_name] is None else {"try_encodings": LISTS[list_name]}
        try:
            sf, got_enc = simfile.open_with_detected_encoding(path, filesystem=world.fs, **kw)
            got = ("ok", X.observe(sf))
        except core.WatchdogTimeout:
            raise
        except BaseException as e:
            got, got_enc = ("exc", type(e).__name__), enc
    if got_enc != enc:
        fails.append({"clause": "reported encoding is not the first of the tried list under which the whole file decodes", "expected": enc, "observed": got_enc})
    if got != want:
        fails.append({"clause": "loaded simfile is not the file's text decoded with that encoding (UnicodeDecodeError only when none decodes)", "expected": want, "observed": got})
    return fails


STALE = b"#TITLE:stale file from an earlier run;\n#SUBTITLE:s;\n"


def run_mutate(world, ext, data, output, backup, list_name, script, explicit_single=False, stale=False, relative=False):
    """relative (native filesystem only): the names are given relative to the current directory."""
    if not relative or world.which != "nat":
        return _run_mutate(world, ext, data, output, backup, list_name, script, explicit_single, stale, lambda n: world.path(n))
    cwd = os.getcwd()
    try:
        os.chdir(world.base)
        return _run_mutate(world, ext, data, output, backup, list_name, script, explicit_single, stale, lambda n: ("./" + n) if n.startswith("bak") else n)
    finally:
        os.chdir(cwd)


def _run_mutate(world, ext, data, output, backup, list_name, script, explicit_single, stale, path_of):
    """
    One mutate run + the follow-up no-op run. Returns failures.
    stale: files already exist under the output and backup names (left by an earlier run).
    """
    fails = []

    def fail(clause, expected, observed):
        fails.append({"clause": clause, "expected": core.jsonable(expected), "observed": core.jsonable(observed)})

    files = {"in" + ext: data, "other.txt": b"unrelated\n"}
    # bystanders whose names resemble the working files (temporary / swap / backup naming habits): none may be touched
    for n in ("in" + ext + ".tmp", "out" + ext + ".tmp", "bak" + ext + ".tmp"):
        files[n] = b"bystander " + n.encode()
    if stale:
        files["out" + ext] = STALE
        files["bak" + ext] = STALE + b"#GENRE:b;\n"
    world.reset(files)
    inp = path_of("in" + ext)
    out = path_of("out" + ext) if output else None
    bakname = {"other": "bak" + ext, "percent": "100%Pure %d%%" + ext, "tmpname": "in" + ext + ".tmp"}.get(backup)
    bak = {"none": None, "input": inp, "output": out}.get(backup, path_of(bakname) if bakname else None)
    tried = LISTS[list_name] or MU.ENCODINGS
    enc = MU.expected_encoding(data, tried)
    if explicit_single and enc:
        tried = [enc]
    kw = {}
    if LISTS[list_name] is not None or explicit_single:
        kw["try_encodings"] = tried
    before = world.snapshot()
    native = world.which == "nat"
    state = {}
    try:
        with simfile.mutate(inp, output_filename=out, backup_filename=bak, filesystem=world.fs, **kw) as sf:
            state["entry"] = MU.canon_obs(sf)
            for op in script:
                MU.apply_edit(sf, op, enc)
            state["exit"] = MU.canon_obs(sf)
            state["type"] = type(sf).__name__
        res = ("ok",)
    except core.WatchdogTimeout:
        raise
    except BaseException as e:
        res = ("exc", type(e).__name__)
    after = world.snapshot()
    refused = bak is not None and bak in (inp, out)
    if refused:
        if res != ("exc", "ValueError"):
            fail("a backup name equal to the input or output name is not refused with ValueError", ("exc", "ValueError"), res)
        if after != before:
            fail("a refused configuration wrote something", "unchanged filesystem", sorted(k for k in set(after) | set(before) if after.get(k) != before.get(k)))
        return fails
    if enc is None:
        if res != ("exc", "UnicodeDecodeError") or after != before:
            fail("undecodable input: expected UnicodeDecodeError and an unchanged filesystem", ("exc", "UnicodeDecodeError"), res)
        return fails
    if res != ("ok",):
        if "title_unencodable" in script and res == ("exc", "UnicodeEncodeError"):
            # saving an unencodable simfile may fail; what the filesystem looks like then is C06's business
            return fails
        fail("mutate raised although the block exited normally", "saved", res)
        return fails
    want_type = "SSCSimfile" if ext == ".ssc" else "SMSimfile"
    if state["type"] != want_type:
        fail("mutate yields the wrong simfile class", want_type, state["type"])
    # entry simfile = the file's decoded text
    try:
        if MU.canon_obs(MU.parse_as(ext, data, enc, native)) != state["entry"]:
            fail("the simfile yielded by mutate is not the file's text in the detected encoding", "parsed text", "different")
    except Exception:
        pass
    outname = ("out" if output else "in") + ext
    allowed = {outname} | ({bakname} if bak else set())
    changed = {k for k in set(after) | set(before) if after.get(k) != before.get(k)}
    if not changed <= allowed:
        fail("a file other than the output / backup was created or changed", sorted(allowed), sorted(changed))
    if output and after.get("in" + ext) != data:
        fail("the input file was touched although an output name was given", "original bytes", "changed")
    try:
        got_out = MU.canon_obs(MU.parse_as(ext, after[outname], enc, native))
        if got_out != state["exit"]:
            fail("the output file (decoded with the detected encoding) does not parse to the simfile as it stood at block exit", state["exit"], got_out)
    except core.WatchdogTimeout:
        raise
    except BaseException as e:
        fail("the output file does not decode / parse in the detected encoding", "simfile at block exit", f"{type(e).__name__}: {e}")
    if bak:
        try:
            got_bak = MU.canon_obs(MU.parse_as(ext, after[bakname], enc, native))
            if got_bak != state["entry"]:
                fail("the backup file does not parse to the simfile as it stood at block entry", state["entry"], got_bak)
        except core.WatchdogTimeout:
            raise
        except BaseException as e:
            fail("the backup file does not decode / parse in the detected encoding", "simfile at block entry", f"{type(e).__name__}: {e}")
    # a no-op mutate on the file just written, read again in the same encoding, leaves the bytes unchanged
    written = after.get(outname)
    if written is not None and MU.expected_encoding(written, tried) == enc and not fails:
        wpath = path_of(outname)
        try:
            with simfile.mutate(wpath, filesystem=world.fs, **kw):
                pass
            again = world.snapshot()
            if again.get(outname) != written:
                fail("a no-op mutate on a file mutate has written changes its bytes", written[:80], again.get(outname, b"")[:80])
            if {k for k in set(again) | set(after) if again.get(k) != after.get(k)} - {outname}:
                fail("a no-op mutate touched another file", "nothing", "changed")
        except core.WatchdogTimeout:
            raise
        except BaseException as e:
            fail("a no-op mutate on a file mutate has written raised", "no-op", f"{type(e).__name__}: {e}")
    return fails


def boundary_payloads():
    out = [("sig-%s" % "".join("1" if x else "0" for x in sig), p) for sig, p in sorted(MU.representatives().items()) if len(p) > 1]
    out += [
        ("e-acute utf-8", "\u00e9".encode("utf-8")), ("hiragana utf-8", "\u3042".encode("utf-8")), ("g-clef utf-8", "\U0001d11e".encode("utf-8")),
        ("hiragana cp932", "\u3042".encode("cp932")), ("hangul cp949", "\uac00".encode("cp949")),
    ]
    return out


BOUNDARIES_QUICK = (512, 1024, 4096, 8192)
BOUNDARIES_THOROUGH = (256, 512, 1024, 2048, 4096, 8192, 16384, 32768, 65536, 131072)


_WORLDS = {}


def world(which):
    if which not in _WORLDS:
        _WORLDS[which] = MU.World(which)
    return _WORLDS[which]


def close_worlds():
    for w in _WORLDS.values():
        w.close()
    _WORLDS.clear()


def check_case(case):
    try:
        w = world(case["fs"])
        data = bytes.fromhex(case["data"])
        if case["kind"] == "detect":
            return check_detection(w, case["ext"], data, case["list"], case.get("explicit"))
        if case["kind"] == "mutate":
            return run_mutate(w, case["ext"], data, case["output"], case["backup"], case["list"], case["script"], case.get("explicit_single", False), case.get("stale", False), case.get("relative", False))
    finally:
        close_worlds()
    raise core.MachineryError("unknown case")


def explore_shard(acc, shard):
    kind = shard[0]
    try:
        if kind == "E":
            _, lo, hi, two_byte, fsname = shard
            layer = "E encoding detection"
            w = world(fsname)
            case = None
            if two_byte:
                payloads = (bytes([a, b]) for a in range(lo, hi) for b in range(256))
            else:
                payloads = (bytes([a]) for a in range(lo, hi))
            for p in payloads:
                if 0x0D in p:
                    continue
                acc.count("states")
                sig = MU.signature(p)
                if not all(sig):
                    acc.count("nontrivial")
                for ext, variant in ((".sm", None), (".ssc", None), (".sm", "commentonly"), (".ssc", "chartsonly")):
                    data = MU.file_bytes(ext, p, with_chart=False, variant=variant)
                    if variant:
                        acc.outcome("file without any header property")
                    for ln in LISTS:
                        case = {"kind": "detect", "fs": fsname, "ext": ext, "data": data.hex(), "list": ln}
                        core.guard_cheap(acc, case)
                        fails = check_detection(w, ext, data, ln)
                        acc.count("transitions")
                        acc.count("evaluations")
                        if MU.expected_encoding(data, LISTS[ln] or MU.ENCODINGS) is None:
                            acc.outcome("no tried encoding decodes (UnicodeDecodeError)")
                        for f in fails:
                            acc.violation(f["clause"], case, f["expected"], f["observed"], signature=(f["clause"], ln))
                    for ex in ("cp932", "utf-8"):
                        case = {"kind": "detect", "fs": fsname, "ext": ext, "data": data.hex(), "list": "default", "explicit": ex}
                        fails = check_detection(w, ext, data, "default", ex)
                        acc.count("transitions")
                        acc.count("evaluations")
                        for f in fails:
                            acc.violation(f["clause"], case, f["expected"], f["observed"], signature=(f["clause"], "explicit"))
            if case:
                acc.sample(layer, case)
        elif kind == "R":
            # the payload many times over: "the whole file decodes" does not depend on how often a byte pattern occurs
            _, fsname = shard
            layer = "R repeated payloads"
            w = world(fsname)
            case = None
            for sig, p in sorted(MU.representatives().items()):
                for k in (2, 15, 16, 17, 64, 1000):
                    for ext in (".sm", ".ssc"):
                        data = MU.file_bytes(ext, p * k, with_chart=False)
                        for ln in ("default", "reversed", "cp949-cp1252"):
                            case = {"kind": "detect", "fs": fsname, "ext": ext, "data": data.hex(), "list": ln}
                            core.guard_cheap(acc, case)
                            fails = check_detection(w, ext, data, ln)
                            acc.count("states")
                            acc.count("transitions")
                            acc.count("evaluations")
                            acc.count("nontrivial")
                            acc.outcome("payload repeated many times")
                            for f in fails:
                                acc.violation(f["clause"], case, f["expected"], f["observed"], signature=(f["clause"], "repeated"))
            if case:
                acc.sample(layer, {"fs": fsname, "repeats": [2, 15, 16, 17, 64, 1000]})
        elif kind == "B":
            # a multi-byte character at every position around the usual buffer sizes: "the whole file decodes"
            _, fsname, bound = shard
            layer = "B multi-byte characters across buffer-size offsets"
            w = world(fsname)
            case = None
            for pname, payload in boundary_payloads():
                for ext in (".sm", ".ssc"):
                    head = b"#VERSION:0.83;\n" if ext == ".ssc" else b""
                    for d in range(0, len(payload) + 1):
                        start = bound - d  # offset of the payload's first byte
                        fixed = len(head) + len(b"#PAD:") + len(b";\n#TITLE:")
                        data = head + b"#PAD:" + b"a" * (start - fixed) + b";\n#TITLE:" + payload + b";\n"
                        assert data.index(payload) == start
                        for tail in (b"", b"#ARTIST:" + b"b" * 40 + b";\n"):
                            for ln in ("default", "reversed", "cp932-utf8"):
                                case = {"kind": "detect", "fs": fsname, "ext": ext, "data": (data + tail).hex(), "list": ln}
                                core.guard_cheap(acc, case)
                                fails = check_detection(w, ext, data + tail, ln)
                                acc.count("states")
                                acc.count("transitions")
                                acc.count("evaluations")
                                acc.count("nontrivial")
                                if 0 < d < len(payload):
                                    acc.outcome("multi-byte character straddling a buffer-size offset")
                                for f in fails:
                                    acc.violation(f["clause"], case, f["expected"], f["observed"], signature=(f["clause"], "boundary"))
            if case:
                acc.sample(layer, {"fs": fsname, "boundary": bound, "payloads": [n for n, _ in boundary_payloads()]})
        elif kind == "M":
            _, sig_idx, fsname, maxlen, full = shard[:5]
            only_ext = shard[5] if len(shard) > 5 else None
            layer = "M mutate"
            w = world(fsname)
            reps = sorted(MU.representatives().items())
            sig, payload = reps[sig_idx]
            case = None
            scripts = [()] + [(e,) for e in MU.EDITS] + ([tuple(s) for n in range(2, maxlen + 1) for s in itertools.product(MU.EDITS, repeat=n)])
            scripts += [("title_unencodable",), ("append_chart", "title_unencodable"), ("title_unencodable", "set_new")]
            for ext in ((only_ext,) if only_ext else (".sm", ".ssc")):
                for with_chart, variant in ((False, None), (True, None), (False, "unterminated"), (True, "crlf"), (False, "empty"), (False, "commentonly"), (False, "chartsonly"), (True, "longlist")):
                    if variant == "crlf" and fsname != "mem":
                        continue  # native text mode translates CRLF on reading; MemoryFS keeps it inside values
                    data = MU.file_bytes(ext, payload, with_chart, key_only=with_chart, variant=variant)
                    for output in (False, True):
                        for backup in ("none", "other", "input", "output", "percent", "tmpname"):
                            if backup == "output" and not output:
                                continue
                            for ln, single in (("default", False), ("reversed", False), ("default", True)):
                                can_be_stale = output or backup == "other"
                                odd_backup = backup in ("percent", "tmpname")
                                if odd_backup and (ln != "default" or single or variant is not None):
                                    continue
                                rel_opts = (False, True) if fsname == "nat" and ln == "default" and not single else (False,)
                                for script, stale, relative in ((sc, st, rl) for sc in (scripts[:3] if odd_backup else scripts) for st in ((False, True) if can_be_stale and len(sc) <= 1 else (False,)) for rl in (rel_opts if len(sc) <= 1 and not st else (False,))):
                                    if len(script) >= 2 and not full and (ln != "default" or single or backup in ("input", "output")):
                                        continue
                                    case = {"kind": "mutate", "fs": fsname, "ext": ext, "data": data.hex(), "output": output, "backup": backup, "list": ln, "script": list(script), "explicit_single": single, "stale": stale, "relative": relative}
                                    core.guard_cheap(acc, case)
                                    fails = run_mutate(w, ext, data, output, backup, ln, script, single, stale, relative)
                                    if relative:
                                        acc.outcome("file names relative to the current directory")
                                    if stale:
                                        acc.outcome("output / backup name already taken by an older file")
                                    acc.count("states")
                                    acc.count("transitions")
                                    acc.count("evaluations")
                                    if script or output or backup != "none" or not all(sig):
                                        acc.count("nontrivial")
                                    if "title_unencodable" in script:
                                        acc.outcome("edit adds a character the detected encoding lacks")
                                    if backup in ("input", "output"):
                                        acc.outcome("clashing backup name")
                                    if backup in ("percent", "tmpname"):
                                        acc.outcome("backup name with % signs / named like a temporary file")
                                    enc = MU.expected_encoding(data, LISTS[ln] or MU.ENCODINGS)
                                    if enc and enc != "utf-8":
                                        acc.outcome(f"file read and written in {enc}")
                                    for f in fails:
                                        acc.violation(f["clause"], case, f["expected"], f["observed"], signature=(f["clause"], fsname if "other than" in f["clause"] else None))
            if case:
                acc.sample(layer, dict(case, payload=payload.hex(), signature=sig))
    finally:
        close_worlds()


def explore(run):
    shards = []
    for lo in range(0, 256, 32):
        shards.append(("E", lo, lo + 32, False, "mem"))
        shards.append(("E", lo, lo + 32, False, "nat"))
    if run.thorough():
        for lo in range(128, 256, 4):
            shards.append(("E", lo, lo + 4, True, "mem"))
    else:
        for lo in (0x81, 0x8E, 0xA1, 0xC3, 0xE3, 0xF0, 0xFD):
            shards.append(("E", lo, lo + 1, True, "mem"))
    for b in (BOUNDARIES_THOROUGH if run.thorough() else BOUNDARIES_QUICK):
        shards.append(("B", "mem", b))
        shards.append(("B", "nat", b))
    shards.append(("R", "mem"))
    shards.append(("R", "nat"))
    nsig = len(MU.representatives())
    maxlen = 3 if run.thorough() else 2
    for i in range(nsig):
        for ext in (".sm", ".ssc"):
            shards.append(("M", i, "mem", maxlen, run.thorough(), ext))
            shards.append(("M", i, "nat", maxlen if run.thorough() else 1, False, ext))
    k = run.seed % len(shards)
    shards = shards[k:] + shards[:k]
    run.merge(core.pmap(explore_shard, shards, run.seed))
    acc = run.acc
    run.rule = (
        "E: every 1-byte payload (MemoryFS and native) and "
        + ("every 2-byte payload with a high lead byte" if run.thorough() else "all 2-byte payloads for 7 lead bytes")
        + f" embedded as '#TITLE:<payload>;' in .sm and .ssc, in a comment-only .sm and in a charts-only .ssc x tried lists {list(LISTS)} + explicit encoding= ; "
        f"B: {len(boundary_payloads())} multi-byte payloads placed at every offset N-d (d = 0..length) for N in {list(BOUNDARIES_THOROUGH if run.thorough() else BOUNDARIES_QUICK)}, with and without text behind, x 3 lists x both filesystems; "
        "R: every representative payload repeated 2, 15, 16, 17, 64 and 1000 times x 3 lists x both filesystems; "
        f"M: one representative payload per decodability signature ({nsig} signatures found by brute force) x 8 layouts (with/without chart, unterminated, CRLF, empty file, comments only, charts only, long one-line lists) x {{.sm,.ssc}} x output name x backup {{none, other, =input, =output, a name with % signs, a name like a temporary file}} x "
        f"encoding list {{default, reversed, explicit}} x filesystem x edit scripts of length <= {maxlen} over {MU.EDITS} x (for scripts of <= 1 edit) output/backup names free or already taken by older files x (native) absolute names or names relative to the current directory; after each run the whole filesystem is compared with the model and a no-op mutate is run on the written file. "
        "Non-trivial = payload not decodable everywhere / any edit, output or backup."
    )
    run.assumptions = ["Python's codecs define what 'decodes' means", "values contain no bare carriage return", "MemoryFS text streams do no newline translation, native ones do (universal newlines)"]
    core.require(acc.outcomes["no tried encoding decodes (UnicodeDecodeError)"] > 0, "error clause not exercised")
    core.require(acc.outcomes["clashing backup name"] > 0, "no clashing backup name")
    core.require(acc.outcomes["backup name with % signs / named like a temporary file"] > 0, "no odd backup name")
    core.require(acc.outcomes["payload repeated many times"] > 0, "no repeated payload")
    core.require(acc.outcomes["file without any header property"] > 0, "no header-less file")
    core.require(acc.outcomes["file names relative to the current directory"] > 0, "no relative names")
    core.require(acc.outcomes["output / backup name already taken by an older file"] > 0, "no pre-existing output / backup file")
    core.require(acc.outcomes["multi-byte character straddling a buffer-size offset"] > 0, "no straddling character")
    core.require(acc.outcomes["edit adds a character the detected encoding lacks"] > 0, "unencodable edit never tried")
    core.require(any(k.startswith("file read and written in cp") for k in acc.outcomes), "no non-UTF-8 file")
    return run.finish(
        states=acc.c["states"],
        transitions=acc.c["transitions"],
        evaluations=acc.c["evaluations"],
        distinct_nontrivial=acc.c["nontrivial"],
    )
