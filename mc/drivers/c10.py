"""
C10 - ungrouping grouped notes restores the original note stream.

Layer R (construction tree, as C09): every stream on small grids (including
keysounded heads) x include sets x 3 same-beat modes x join off/on x 3x3 orphan
policies of group_notes x 3 policies of ungroup_notes.
Layer H: hand-built grouped sequences with one or two joined holds and plain notes in
every other cell of a 2x4 grid, in all three groupings x 3 policies.
"""
import itertools
from fractions import Fraction

from .. import core
from ..models import notes as M
from . import notes_common as N

LEVEL = "model_checking"

BEATS = [Fraction(0), Fraction(1, 2), Fraction(1), Fraction(4), Fraction(9, 2), Fraction(8)]

# name -> (columns, cell alphabet, max rows quick, max rows thorough)
GRIDS = {
    "A": (2, ("0", M.TAP, M.HOLD, M.TAIL, M.MINE), 3, 4),
    "Ak": (2, ("0", M.TAP, M.HOLD, "2[5]", M.TAIL, M.MINE), 2, 3),
    "K1": (1, ("0", "2[5]", "4[1]", M.TAIL, M.TAP), 4, 5),
    "R3": (3, ("0", M.ROLL, "4[0]", M.TAIL), 2, 2),
    # different beats inside one 1/48 tick
    "T": (2, ("0", M.TAP, M.HOLD, M.TAIL), 3, 3),
    # every other note type on a held column (each must interrupt the hold)
    "X1": (1, ("0", M.HOLD, M.TAIL, M.KEYSOUND, M.ATTACK, M.FAKE, M.LIFT), 3, 4),
}
CLOSE_BEATS = [Fraction(1), Fraction(97, 96), Fraction(49, 48), Fraction(197, 192)]


def fmt_stream(stream):
    return [[f"{n[0].numerator}/{n[0].denominator}", n[1], n[2], n[3], n[4]] for n in stream]


def parse_stream(js):
    return [(Fraction(b), c, t, p, k) for b, c, t, p, k in js]


def includes_for(types, present):
    out = [tuple(types), ()]  # all types of the grid; the explicitly empty set (nothing is included)
    for t in types:
        if t in present:
            out.append(tuple(x for x in types if x != t))
    return out


def eval_roundtrip(stream, istream, inc, mode, join, hp, tp):
    """Returns list of (policy, expected, observed) disagreements; [] when fine, None when grouping raises."""
    try:
        expected = M.ungroup_expected(stream, inc, join, hp, tp)
    except M.Raises:
        return None
    try:
        groups = [list(g) for g in N.group_notes(
            iter(istream),
            include_note_types=frozenset(N.NT[t] for t in inc),
            same_beat_notes=N.MODE[mode],
            join_heads_to_tails=join,
            orphaned_head=N.POLICY[hp],
            orphaned_tail=N.POLICY[tp],
        )]
    except core.WatchdogTimeout:
        raise
    except Exception as e:
        return [("-", "grouping succeeds", f"group_notes raised {type(e).__name__}: {e}")]
    bad = []
    for pol in N.POLICIES:
        try:
            back = [N.from_impl(n) for n in N.ungroup_notes(iter(groups), orphaned_notes=N.POLICY[pol])]
        except core.WatchdogTimeout:
            raise
        except Exception as e:
            bad.append((pol, expected, f"ungroup_notes raised {type(e).__name__}: {e}"))
            continue
        if mode == M.BY_TYPE:
            ok = sorted(back, key=repr) == sorted(expected, key=repr) and all(a[0] <= b[0] for a, b in zip(back, back[1:]))
        else:
            ok = back == expected
        if not ok:
            bad.append((pol, expected, back))
    return bad


# -- hand-built grouped sequences ------------------------------------------------


def handbuilt_groups(plain, holds, mode):
    """plain: model notes; holds: joined tuples; returns the grouped sequence (model tuples)."""
    items = sorted(plain + holds, key=M.position)
    return M.rows_model(items, mode)


def to_impl_item(x):
    if len(x) == 5:
        return N.to_impl(x)
    return N.NoteWithTail(
        beat=N.Beat(x[0].numerator, x[0].denominator), column=x[1], note_type=N.NT[x[2]],
        tail_beat=N.Beat(x[3].numerator, x[3].denominator), player=x[4], keysound_index=x[5],
    )


def eval_handbuilt(plain, holds, mode, pol):
    groups = handbuilt_groups(plain, holds, mode)
    igroups = [[to_impl_item(x) for x in g] for g in groups]
    heads = [(h[0], h[1], h[2], h[4], h[5]) for h in holds]
    # notes lying inside a joined hold on its column: plain notes, and the head of another joined hold
    splitting = [n for n in plain + heads if any(h[1] == n[1] and h[4] == n[3] and h[0] < n[0] < h[3] for h in holds)]
    tails = [(h[3], h[1], M.TAIL, h[4], None) for h in holds]
    try:
        back = [N.from_impl(n) for n in N.ungroup_notes(iter(igroups), orphaned_notes=N.POLICY[pol])]
        obs = ("ok", back)
    except N.OrphanedNoteException as e:
        arg = e.args[0] if e.args else None
        obs = ("raise", N.from_impl(arg) if arg is not None else None)
    except core.WatchdogTimeout:
        raise
    except Exception as e:
        obs = ("exc", f"{type(e).__name__}: {e}")
    if pol == M.RAISE:
        # the documented default of orphaned_notes is RAISE_EXCEPTION: the same call without the argument
        try:
            dflt = ("ok", [N.from_impl(n) for n in N.ungroup_notes(iter(igroups))])
        except N.OrphanedNoteException as e:
            dflt = ("raise", N.from_impl(e.args[0]) if e.args else None)
        except core.WatchdogTimeout:
            raise
        except Exception as e:
            dflt = ("exc", f"{type(e).__name__}: {e}")
        if dflt != obs:
            return (("default orphaned_notes behaves like RAISE_EXCEPTION", obs), dflt)
    if splitting and pol == M.RAISE:
        if obs[0] == "raise" and obs[1] in splitting:
            return None
        return (("raise", splitting), obs)
    keep = [n for n in plain + heads if not (pol == M.DROP and n in splitting)]
    expected = sorted(keep + tails, key=M.position)
    if obs[0] != "ok":
        return (("ok", expected), obs)
    if mode == M.BY_TYPE:
        ok = sorted(obs[1], key=repr) == sorted(expected, key=repr) and all(a[0] <= b[0] for a, b in zip(obs[1], obs[1][1:]))
    else:
        ok = obs[1] == expected
    return None if ok else (("ok", expected), obs)


def check_case(case):
    if case["kind"] == "roundtrip":
        stream = parse_stream(case["stream"])
        istream = [N.to_impl(n) for n in stream]
        bad = eval_roundtrip(stream, istream, tuple(case["include"]), case["mode"], case["join"], case["head"], case["tail"])
        return [
            {"clause": "ungroup(group(stream)) is not the original stream", "policy": pol, "expected": core.jsonable(e), "observed": core.jsonable(o)}
            for pol, e, o in (bad or [])
        ]
    if case["kind"] == "long":
        label, cols, stream = N.long_streams(case.get("thorough", False))[case["index"]]
        bad = eval_roundtrip(stream, [N.to_impl(n) for n in stream], tuple(M.ALL_TYPES), case["mode"], case["join"], case["head"], case["tail"])
        return [{"clause": "ungroup(group(stream)) is not the original stream (long stream)", "expected": f"{len(e)} notes", "observed": o if isinstance(o, str) else f"{len(o)} notes"} for pol, e, o in (bad or [])]
    if case["kind"] == "handbuilt":
        plain = parse_stream(case["plain"])
        holds = [(Fraction(h[0]), h[1], h[2], Fraction(h[3]), h[4], h[5]) for h in case["holds"]]
        r = eval_handbuilt(plain, holds, case["mode"], case["policy"])
        if r is None:
            return []
        return [{"clause": "ungroup_notes on a hand-built grouped sequence", "expected": core.jsonable(r[0]), "observed": core.jsonable(r[1])}]
    raise core.MachineryError("unknown case")


def check_node(acc, grid, stream, types):
    istream = [N.to_impl(n) for n in stream]
    core.guard_cheap(acc, {"kind": "node", "grid": grid, "stream": fmt_stream(stream)})
    present = set(x[2] for x in stream)
    n = 0
    for inc in includes_for(types, present):
        for mode in N.MODES:
            cfgs = [(False, M.RAISE, M.RAISE)] + [(True, hp, tp) for hp in N.POLICIES for tp in N.POLICIES]
            for join, hp, tp in cfgs:
                bad = eval_roundtrip(stream, istream, inc, mode, join, hp, tp)
                if bad is None:
                    acc.count("grouping_raises_skipped")
                    continue
                n += 3
                if join and (hp == M.DROP or tp == M.DROP):
                    acc.outcome("round trip with dropped-orphan policy")
                for pol, e, o in bad:
                    case = {"kind": "roundtrip", "stream": fmt_stream(stream), "include": list(inc), "mode": mode, "join": join, "head": hp, "tail": tp}
                    acc.violation("ungroup(group(stream)) is not the original stream", case, e, o,
                                  signature=("roundtrip", join, isinstance(o, str)))
    acc.count("evaluations", n)
    acc.count("states")
    if any(x[2] in M.HEADS for x in stream) and any(x[2] == M.TAIL for x in stream):
        acc.count("nontrivial")
        if any(x[4] is not None and x[2] in M.HEADS for x in stream):
            acc.outcome("keysounded head")


def explore_shard(acc, shard):
    kind = shard[0]
    if kind == "grid":
        _, grid, prefix, maxrows, plen = shard
        cols, alphabet, _, _ = GRIDS[grid]
        types = []
        for a in alphabet:
            if a != "0" and a[0] not in types:
                types.append(a[0])
        rows = N.grid_rows(cols, alphabet)
        beats = (CLOSE_BEATS if grid == "T" else BEATS) + [Fraction(12 + i) for i in range(4)]
        layer = f"R grid {grid}"

        def rec(prefix_rows):
            stream = N.stream_of(prefix_rows, beats)
            check_node(acc, grid, stream, types)
            if len(prefix_rows) < maxrows:
                for r in rows:
                    acc.count("transitions")
                    rec(prefix_rows + [r])

        if prefix == "root":
            def short(prefix_rows):
                stream = N.stream_of(prefix_rows, beats)
                check_node(acc, grid, stream, types)
                acc.sample(layer, {"rows": ["".join(r) for r in prefix_rows], "stream": fmt_stream(stream)})
                if len(prefix_rows) + 1 < plen:
                    for r in rows:
                        acc.count("transitions")
                        short(prefix_rows + [r])
            short([])
            acc.layer(layer, columns=cols, alphabet=list(alphabet), max_rows=maxrows, exhaustive=True)
        else:
            acc.count("transitions")
            rec(list(prefix))
    elif kind == "long":
        _, idx, thorough = shard
        label, cols, stream = N.long_streams(thorough)[idx]
        layer = "L long streams"
        istream = [N.to_impl(n) for n in stream]
        types = tuple(M.ALL_TYPES)
        case = None
        for mode in N.MODES:
            for join, hp, tp in ((False, M.RAISE, M.RAISE), (True, M.KEEP, M.KEEP), (True, M.DROP, M.DROP)):
                case = {"kind": "long", "index": idx, "thorough": thorough, "label": label, "mode": mode, "join": join, "head": hp, "tail": tp}
                core.guard(acc, case)
                bad = eval_roundtrip(stream, istream, types, mode, join, hp, tp)
                acc.count("evaluations", 3)
                for pol, e, o in (bad or []):
                    acc.violation("ungroup(group(stream)) is not the original stream (long stream)", case, f"{len(e)} notes", o if isinstance(o, str) else f"{len(o)} notes, first difference at {next((i for i, (a, b) in enumerate(zip(e, o)) if a != b), 'the end')}",
                                  signature=("roundtrip-long", join, isinstance(o, str)))
        acc.count("states")
        acc.count("transitions")
        acc.count("nontrivial")
        acc.outcome("long stream")
        acc.sample(layer, {"label": label, "notes": len(stream)})
    elif kind == "N":
        # nested joined holds of one column with plain notes behind the inner tail (the outer hold is still open there)
        layer = "N nested joined holds and later notes"
        F = Fraction
        case = None
        for outer_t, inner in ((F(4), (F(1), F(2))), (F(5), (F(1), F(3))), (F(4), (F(2), F(3)))):
            holds = [(F(0), 0, M.HOLD, outer_t, 0, None), (inner[0], 0, M.ROLL, inner[1], 0, 9)]
            spots = [b for b in (F(1, 2), F(3, 2), F(5, 2), F(7, 2), F(3), F(9, 2)) if b < outer_t and b not in (inner[0], inner[1])]
            for k in (1, 2):
                for sel in itertools.combinations(spots, k):
                    for col in (0, 1):
                        plain = [(b, col, M.TAP if i % 2 == 0 else M.MINE, 0, None) for i, b in enumerate(sel)]
                        for mode in N.MODES:
                            for pol in N.POLICIES:
                                case = {"kind": "handbuilt", "mode": mode, "policy": pol, "plain": fmt_stream(plain),
                                        "holds": [[f"{h[0].numerator}/{h[0].denominator}", h[1], h[2], f"{h[3].numerator}/{h[3].denominator}", h[4], h[5]] for h in holds]}
                                core.guard_cheap(acc, case)
                                r = eval_handbuilt(plain, holds, mode, pol)
                                acc.count("evaluations")
                                if r is not None:
                                    acc.violation("ungroup_notes on a hand-built grouped sequence", case, r[0], r[1], signature=("handbuilt-nested", r[0][0], r[1][0]))
                        acc.count("states")
                        acc.count("transitions")
                        acc.count("nontrivial")
        acc.outcome("plain note behind the inner of two nested joined holds")
        acc.sample(layer, case)
    elif kind == "M":
        # k holds in k columns, open in every possible interleaving: all perfect matchings of the beats 0..2k-1
        # into (head, tail) pairs, the hold with the i-th earliest head in column i (tails are kept in a heap /
        # sorted list by the implementation: every push/pop history of up to k pending tails occurs)
        _, k, part, nparts = shard
        layer = f"M every interleaving of {k} holds"
        case = None
        count = 0

        def matchings(free):
            if not free:
                yield []
                return
            h = free[0]
            for j in range(1, len(free)):
                rest = free[1:j] + free[j + 1:]
                for m in matchings(rest):
                    yield [(h, free[j])] + m

        modes = N.MODES if k <= 4 else N.MODES[:1]
        for idx, m in enumerate(matchings(list(range(2 * k)))):
            if idx % nparts != part:
                continue
            stream = []
            for col, (hb, tb) in enumerate(m):
                stream.append((Fraction(hb), col, M.HOLD if col % 2 == 0 else M.ROLL, 0, None))
                stream.append((Fraction(tb), col, M.TAIL, 0, None))
            stream.sort(key=M.position)
            istream = [N.to_impl(n) for n in stream]
            types = (M.HOLD, M.ROLL, M.TAIL)
            for mode in modes:
                case = {"kind": "roundtrip", "stream": fmt_stream(stream), "include": list(types), "mode": mode, "join": True, "head": M.KEEP, "tail": M.KEEP}
                core.guard_cheap(acc, case)
                bad = eval_roundtrip(stream, istream, types, mode, True, M.KEEP, M.KEEP)
                acc.count("evaluations", 3)
                for pol, e, o in (bad or []):
                    acc.violation("ungroup(group(stream)) is not the original stream", case, e, o, signature=("roundtrip-M", k, isinstance(o, str)))
            acc.count("states")
            acc.count("transitions")
            acc.count("nontrivial")
            count += 1
        if k >= 6:
            acc.outcome("six holds pending in every interleaving")
        if case:
            acc.sample(layer, dict(case, matchings_in_shard=count))
    elif kind == "H":
        _, c1, i1, j1 = shard
        layer = "H hand-built grouped sequences"
        beats = [Fraction(0), Fraction(1), Fraction(2), Fraction(3)]
        cells = [(r, c) for r in range(4) for c in range(2)]
        hold1 = (beats[i1], c1, M.HOLD, beats[j1], 0, 7)
        second = [None]
        c2 = 1 - c1
        for i2 in range(4):
            for j2 in range(i2 + 1, 4):
                second.append((beats[i2], c2, M.ROLL, beats[j2], 0, None))
        # ... or in the same column, beginning inside the first hold (its head is then a splitting note)
        for i2 in range(i1 + 1, j1):
            for j2 in range(i2 + 1, 4):
                if j2 != j1:
                    second.append((beats[i2], c1, M.ROLL, beats[j2], 0, 3))
        for h2 in second:
            holds = [hold1] + ([h2] if h2 else [])
            if h2 and h2[1] == c1:
                acc.outcome("joined hold beginning inside another joined hold of its column")
            taken = set()
            for h in holds:
                taken.add((beats.index(h[0]), h[1]))
                taken.add((beats.index(h[3]), h[1]))
            free = [x for x in cells if x not in taken]
            plains = [[]]
            for k in (1, 2):
                for sel in itertools.combinations(free, k):
                    for kinds in itertools.product((M.TAP, M.MINE), repeat=k):
                        plains.append([(beats[r], c, t, 0, None) for (r, c), t in zip(sel, kinds)])
            for plain in plains:
                for mode in N.MODES:
                    for pol in N.POLICIES:
                        case = {
                            "kind": "handbuilt", "mode": mode, "policy": pol,
                            "plain": fmt_stream(plain),
                            "holds": [[f"{h[0].numerator}/{h[0].denominator}", h[1], h[2], f"{h[3].numerator}/{h[3].denominator}", h[4], h[5]] for h in holds],
                        }
                        core.guard_cheap(acc, case)
                        r = eval_handbuilt(plain, holds, mode, pol)
                        acc.count("evaluations")
                        splitting = any(any(h[1] == n[1] and h[0] < n[0] < h[3] for h in holds) for n in plain + [(h[0], h[1]) for h in holds])
                        if splitting:
                            acc.outcome(f"note inside a joined hold, policy {pol}")
                        if r is not None:
                            acc.violation("ungroup_notes on a hand-built grouped sequence", case, r[0], r[1],
                                          signature=("handbuilt", r[0][0], r[1][0]))
                acc.count("states")
                acc.count("transitions")
                if plain:
                    acc.count("nontrivial")
        acc.sample(layer, case)
    elif kind == "P3":
        # three or four holds open at once, released in every order, nothing after the last tail
        layer = "P3 several holds released in every order"
        import itertools as it
        case = None
        for ncols in (3, 4):
            for perm in it.permutations(range(ncols)):
                for head_types in it.product((M.HOLD, M.ROLL), repeat=1):
                    stream = [(Fraction(0), c, head_types[0] if c % 2 == 0 else M.ROLL, 0, (c if c else None)) for c in range(ncols)]
                    stream += sorted([(Fraction(1 + perm[c]), c, M.TAIL, 0, None) for c in range(ncols)], key=lambda n: (n[0], n[1]))
                    for tail_extra in (None, (Fraction(1 + ncols), 0, M.TAP, 0, None)):
                        st = stream + ([tail_extra] if tail_extra else [])
                        check_node(acc, "P3", st, [M.TAP, M.HOLD, M.ROLL, M.TAIL])
                        acc.count("transitions")
                        acc.outcome("three or more tails pending at the end")
                        case = {"stream": fmt_stream(st)}
        acc.sample(layer, case)
    elif kind == "corpus":
        _, idx = shard
        name, sf, chart = N.corpus_charts()[idx]
        istream = list(N.NoteData(chart))
        stream = [N.from_impl(n) for n in istream]
        present = sorted(set(n[2] for n in stream))
        core.guard(acc, {"kind": "corpus", "chart": name})
        n = 0
        for inc in (tuple(M.ALL_TYPES), tuple(M.STEP_TYPES) + (M.TAIL,), (M.HOLD, M.ROLL, M.TAIL)):
            for mode in N.MODES:
                for join, hp, tp in [(False, M.RAISE, M.RAISE), (True, M.KEEP, M.KEEP), (True, M.DROP, M.DROP), (True, M.RAISE, M.RAISE), (True, M.KEEP, M.DROP)]:
                    bad = eval_roundtrip(stream, istream, inc, mode, join, hp, tp)
                    if bad is None:
                        continue
                    n += 3
                    for pol, e, o in bad:
                        acc.violation("ungroup(group(stream)) is not the original stream (corpus chart)",
                                      {"kind": "corpus", "chart": name, "include": inc, "mode": mode, "join": join, "head": hp, "tail": tp},
                                      len(e), o if isinstance(o, str) else len(o), signature=("corpus", mode, join))
        acc.count("evaluations", n)
        acc.count("states")
        acc.count("nontrivial")
        acc.count("corpus_charts")
        acc.sample("corpus", {"chart": name, "notes": len(stream), "types": present})


def explore(run):
    shards = []
    for grid, (cols, alphabet, q, t) in GRIDS.items():
        maxrows = t if run.thorough() else q
        rows = N.grid_rows(cols, alphabet)
        plen = 1 if (len(rows) >= 64 or maxrows == 1) else min(2, maxrows)
        shards.append(("grid", grid, "root", maxrows, plen))
        for pre in itertools.product(rows, repeat=plen):
            shards.append(("grid", grid, pre, maxrows, plen))
    for c1 in (0, 1):
        for i1 in range(4):
            for j1 in range(i1 + 1, 4):
                shards.append(("H", c1, i1, j1))
    shards.append(("P3",))
    shards += [("long", i, run.thorough()) for i in range(len(N.long_streams(run.thorough())))]
    shards.append(("N",))
    for k in (1, 2, 3, 4, 5):
        shards.append(("M", k, 0, 1))
    for part in range(8):
        shards.append(("M", 6, part, 8))  # 10395 matchings
    if run.thorough():
        for part in range(32):
            shards.append(("M", 7, part, 32))  # 135135 matchings
    shards += [("corpus", i) for i in range(len(N.corpus_charts()))]
    k = run.seed % len(shards)
    shards = shards[k:] + shards[:k]
    run.merge(core.pmap(explore_shard, shards, run.seed))
    acc = run.acc
    run.rule = (
        "R: streams built row by row on grids "
        + ", ".join(f"{g}={c}col x<={t if run.thorough() else q}rows over {' '.join(a)}" for g, (c, a, q, t) in GRIDS.items())
        + "; every node x include sets (all types, all-but-one present type, the empty set) x 3 same-beat modes x (join off + join on x 3x3 orphan policies) x 3 ungroup policies, "
        "compared with 'the included notes minus exactly the orphans the model says were dropped'; "
        "H: one or two NoteWithTail on a 2x4 grid + <=2 plain notes in every other cell x 3 groupings x 3 policies; corpus charts. "
        "L: the long streams of C09 (1023..4097 notes between a head and its tail, thousands of rows, 1500 short holds) x 3 modes x join off / keep / drop. M: k <= 6 (thorough 7) holds in k columns in every interleaving of their heads and tails (all perfect matchings of 2k beats: 10395 for k = 6). "
        "Non-trivial = stream has a head and a tail / a hand-built sequence with plain notes."
    )
    run.assumptions = [
        "mc/models/notes.py join_model decides which orphans grouping drops (validated against group_notes by C09)",
        "tails carry no keysound index; single-player position-sorted streams",
    ]
    core.require(acc.outcomes["keysounded head"] > 0, "no keysounded head")
    core.require(acc.outcomes["three or more tails pending at the end"] > 0, "never three pending tails")
    core.require(acc.outcomes["round trip with dropped-orphan policy"] > 0, "no dropped-orphan policy")
    for pol in N.POLICIES:
        core.require(acc.outcomes[f"note inside a joined hold, policy {pol}"] > 0, f"no splitting note under {pol}")
    core.require(acc.outcomes["joined hold beginning inside another joined hold of its column"] > 0, "no nested joined hold")
    core.require(acc.outcomes["six holds pending in every interleaving"] > 0, "no six-hold interleavings")
    return run.finish(
        states=acc.c["states"],
        transitions=acc.c["transitions"],
        evaluations=acc.c["evaluations"],
        distinct_nontrivial=acc.c["nontrivial"],
    )
