"""
C09 - grouping and counting notes follow the documented rules for every stream.

Shape I (construction tree): streams are built row by row on small grids; every
node (prefix) is checked under every option combination against models/notes.py.
"""
import itertools
from fractions import Fraction

from .. import core
from ..models import notes as M
from . import notes_common as N

from simfile.notes import count as C  # noqa: E402

LEVEL = "model_checking"

BEATS = [Fraction(0), Fraction(1, 2), Fraction(1), Fraction(4), Fraction(9, 2), Fraction(8)]

# name -> (columns, cell alphabet, max rows quick, max rows thorough)
GRIDS = {
    "A": (2, ("0", M.TAP, M.HOLD, M.TAIL, M.MINE), 3, 4),
    "B": (2, ("0", M.HOLD, M.ROLL, M.TAIL, M.LIFT), 2, 3),
    "C": (3, ("0", M.TAP, M.HOLD, M.TAIL), 2, 3),
    "D1": (1, ("0",) + M.ALL_TYPES, 3, 4),
    "D6": (6, ("0", M.TAP, M.HOLD, M.TAIL), 1, 1),
    "E4": (4, ("0", M.TAP, M.ROLL, M.TAIL), 1, 2),
    # rows on different beats that lie inside one 1/48 tick (and a row exactly one tick later)
    "T": (2, ("0", M.TAP, M.HOLD, M.TAIL), 3, 3),
    # two notes in one cell (ill-formed, but still a position-sorted stream)
    "S": (2, ("0", M.TAP, M.HOLD, M.TAIL, "1+2", "2+1"), 2, 3),
}
CLOSE_BEATS = [Fraction(1), Fraction(97, 96), Fraction(49, 48), Fraction(197, 192)]


def fmt_stream(stream):
    return [[f"{n[0].numerator}/{n[0].denominator}", n[1], n[2], n[3], n[4]] for n in stream]


def parse_stream(js):
    return [(Fraction(b), c, t, p, k) for b, c, t, p, k in js]


# ---------------------------------------------------------------------------
# single evaluations (used by the explorer and by --replay)
# ---------------------------------------------------------------------------


def eval_group(stream, istream, include, mode, join, hp, tp):
    """Returns None when implementation and model agree, else (expected, observed)."""
    try:
        exp = ("ok", M.group_model(stream, include, mode, join, hp, tp))
    except M.Raises as r:
        exp = ("raise", r.candidates)
    try:
        groups = list(
            N.group_notes(
                iter(istream),
                include_note_types=frozenset(N.NT[t] for t in include),
                same_beat_notes=N.MODE[mode],
                join_heads_to_tails=join,
                orphaned_head=N.POLICY[hp],
                orphaned_tail=N.POLICY[tp],
            )
        )
        obs = ("ok", [[N.from_impl(n) for n in g] for g in groups])
    except N.OrphanedNoteException as e:
        arg = e.args[0] if e.args else None
        obs = ("raise", N.from_impl(arg) if arg is not None else None)
    except core.WatchdogTimeout:
        raise
    except Exception as e:
        obs = ("exc", f"{type(e).__name__}: {e}")
    if exp[0] == "ok":
        if obs == exp:
            return None
    elif obs[0] == "raise" and obs[1] in exp[1]:
        return None
    return (exp, obs)


def eval_count(stream, istream, fn, kw):
    """fn in count_steps/jumps/hands/mines/holds/rolls; kw are model-level options."""
    try:
        if fn == "count_mines":
            exp = ("ok", M.count_mines_direct(stream))
        elif fn in ("count_holds", "count_rolls"):
            head = M.HOLD if fn == "count_holds" else M.ROLL
            exp = ("ok", M.count_holds_model(stream, head, kw.get("head", M.RAISE), kw.get("tail", M.RAISE)))
        else:
            include = kw.get("include", M.STEP_TYPES)
            mode = kw.get("mode", M.JOIN_ALL)
            minimum = kw.get("minimum", {"count_steps": 1, "count_jumps": 2, "count_hands": 3}[fn])
            exp = ("ok", M.count_groups_direct(stream, include, mode, minimum))
    except M.Raises as r:
        exp = ("raise", r.candidates)
    ikw = {}
    if "include" in kw:
        ikw["include_note_types"] = frozenset(N.NT[t] for t in kw["include"])
    if "mode" in kw:
        ikw["same_beat_notes"] = N.MODE[kw["mode"]]
    if "minimum" in kw:
        ikw["same_beat_minimum"] = kw["minimum"]
    if "head" in kw:
        ikw["orphaned_head"] = N.POLICY[kw["head"]]
    if "tail" in kw:
        ikw["orphaned_tail"] = N.POLICY[kw["tail"]]
    try:
        val = getattr(C, fn)(iter(istream), **ikw)
        obs = ("ok", val)
        if type(val) is not int:
            obs = ("ok", repr(val))
    except N.OrphanedNoteException as e:
        arg = e.args[0] if e.args else None
        obs = ("raise", N.from_impl(arg) if arg is not None else None)
    except core.WatchdogTimeout:
        raise
    except Exception as e:
        obs = ("exc", f"{type(e).__name__}: {e}")
    if exp[0] == "ok":
        if obs == exp:
            return None
    elif obs[0] == "raise" and obs[1] in exp[1]:
        return None
    return (exp, obs)


def check_long(case):
    acc = core.Acc()
    explore_shard(acc, ("long", case["index"], case.get("thorough", False)))
    return [{"clause": v["clause"], "expected": v.get("expected"), "observed": v.get("observed")} for v in acc.violations]


def check_case(case):
    if case["kind"] == "long":
        return check_long(case)
    stream = parse_stream(case["stream"])
    istream = [N.to_impl(n) for n in stream]
    if case["kind"] == "group-defaults":
        return [{"clause": "group_notes called with its default options differs from the documented defaults", "expected": core.jsonable(e), "observed": core.jsonable(o)}
                for j, e, o in eval_group_defaults(stream, istream) if j == case["join"]]
    if case["kind"] == "group":
        r = eval_group(stream, istream, tuple(case["include"]), case["mode"], case["join"], case["head"], case["tail"])
        clause = "group_notes output differs from the documented rules"
    else:
        kw = dict(case["kw"])
        if "include" in kw:
            kw["include"] = tuple(kw["include"])
        r = eval_count(stream, istream, case["fn"], kw)
        clause = f"{case['fn']} differs from the documented count"
    if r is None:
        return []
    return [{"clause": clause, "expected": core.jsonable(r[0]), "observed": core.jsonable(r[1])}]


# ---------------------------------------------------------------------------
# exploration
# ---------------------------------------------------------------------------


_CFG_CACHE = {}


def includes_for(types, present):
    """
    Every subset of the note types present in the stream, once as it is and once
    together with all the grid's absent types (so every distinct filtering of the
    stream is exercised with a minimal and a maximal include set).
    """
    absent = tuple(t for t in types if t not in present)
    out = []
    for sub in N.subsets([t for t in types if t in present]):
        out.append(sub)
        if absent:
            out.append(tuple(t for t in types if t in sub or t in absent))
    return out


def configs_for(types, present):
    """All option combinations for a stream with these note types present."""
    key = (tuple(types), tuple(sorted(present)))
    if key in _CFG_CACHE:
        return _CFG_CACHE[key]
    group_cfgs = []
    for inc in includes_for(types, present):
        for mode in N.MODES:
            group_cfgs.append((inc, mode, False, M.RAISE, M.RAISE))
            for hp in N.POLICIES:
                for tp in N.POLICIES:
                    group_cfgs.append((inc, mode, True, hp, tp))
    _CFG_CACHE[key] = (group_cfgs, count_configs(types, present))
    return _CFG_CACHE[key]


def eval_group_defaults(stream, istream):
    """The documented defaults: every note type, KEEP_SEPARATE, no joining; with joining on, RAISE for both orphans."""
    out = []
    for join in (False, True):
        try:
            exp = ("ok", M.group_model(stream, M.ALL_TYPES, M.SEPARATE, join, M.RAISE, M.RAISE))
        except M.Raises as r:
            exp = ("raise", r.candidates)
        try:
            kw = {"join_heads_to_tails": True} if join else {}
            obs = ("ok", [[N.from_impl(n) for n in g] for g in N.group_notes(iter(istream), **kw)])
        except N.OrphanedNoteException as e:
            obs = ("raise", N.from_impl(e.args[0]) if e.args else None)
        except core.WatchdogTimeout:
            raise
        except Exception as e:
            obs = ("exc", f"{type(e).__name__}: {e}")
        ok = (obs == exp) if exp[0] == "ok" else (obs[0] == "raise" and obs[1] in exp[1])
        if not ok:
            out.append((join, exp, obs))
    return out


def check_node(acc, grid, stream, types):
    group_cfgs, count_cfgs = configs_for(types, set(x[2] for x in stream))
    istream = [N.to_impl(n) for n in stream]
    for join, exp, obs in eval_group_defaults(stream, istream):
        acc.violation("group_notes called with its default options differs from the documented defaults",
                      {"kind": "group-defaults", "stream": fmt_stream(stream), "join": join}, exp, obs, signature=("group-defaults", join))
    core.guard_cheap(acc, {"kind": "node", "grid": grid, "stream": fmt_stream(stream)})
    n = 0
    for (inc, mode, join, hp, tp) in group_cfgs:
        r = eval_group(stream, istream, inc, mode, join, hp, tp)
        n += 1
        if r is not None:
            case = {"kind": "group", "stream": fmt_stream(stream), "include": list(inc), "mode": mode, "join": join, "head": hp, "tail": tp}
            acc.violation(
                "group_notes output differs from the documented rules",
                case, r[0], r[1],
                signature=("group", mode, join, hp if join else "-", tp if join else "-", r[0][0], r[1][0]),
            )
        elif join:
            pass
    for fn, kw in count_cfgs:
        r = eval_count(stream, istream, fn, kw)
        n += 1
        if r is not None:
            case = {"kind": "count", "stream": fmt_stream(stream), "fn": fn, "kw": {k: (list(v) if isinstance(v, tuple) else v) for k, v in kw.items()}}
            acc.violation(
                f"{fn} differs from the documented count", case, r[0], r[1],
                signature=("count", fn, sorted(kw), r[0][0], r[1][0]),
            )
    acc.count("evaluations", n)
    acc.count("states")
    # outcome classes for the vacuity guards, computed from the model
    nontrivial = False
    if any(x[2] in (M.HOLD, M.ROLL, M.TAIL) for x in stream):
        nontrivial = True
        inc = tuple(sorted(set(x[2] for x in stream)))
        for hp, tp in ((M.KEEP, M.KEEP), (M.DROP, M.DROP)):
            notes, dropped, kept = M.join_model(stream, hp, tp)
            if any(len(x) == 6 for x in notes):
                acc.outcome("joined pair")
            if kept:
                acc.outcome("kept orphan")
            if dropped:
                acc.outcome("dropped orphan")
        try:
            M.join_model(stream, M.RAISE, M.RAISE)
        except M.Raises:
            acc.outcome("must raise")
    beats = [x[0] for x in stream]
    if len(set(beats)) < len(beats):
        nontrivial = True
        acc.outcome("same-beat notes")
    if nontrivial:
        acc.count("nontrivial")


def count_configs(types, present):
    cfgs = [("count_steps", {}), ("count_jumps", {}), ("count_hands", {}), ("count_mines", {}), ]
    for inc in includes_for(types, present):
        for mode in N.MODES:
            for minimum in (1, 2, 3, 4):
                cfgs.append(("count_steps", {"include": inc, "mode": mode, "minimum": minimum}))
    for mode in N.MODES:
        cfgs.append(("count_jumps", {"mode": mode}))
        for minimum in (1, 2, 3, 4):
            cfgs.append(("count_hands", {"mode": mode, "minimum": minimum}))
    for fn in ("count_holds", "count_rolls"):
        cfgs.append((fn, {}))
        for hp in N.POLICIES:
            for tp in N.POLICIES:
                cfgs.append((fn, {"head": hp, "tail": tp}))
    return cfgs


def explore_shard(acc, shard):
    kind = shard[0]
    if kind == "grid":
        _, grid, prefix, maxrows, _plen = shard
        beat_off = 0
        cols, alphabet, _, _ = GRIDS[grid]
        types = []
        for a in alphabet:
            for part in a.split("+"):
                if part != "0" and part not in types:
                    types.append(part)
        rows = N.grid_rows(cols, alphabet)
        beats = (CLOSE_BEATS if grid == "T" else BEATS[beat_off:]) + [Fraction(12 + i) for i in range(4)]
        layer = f"grid {grid}"

        def rec(prefix_rows):
            stream = N.stream_of(prefix_rows, beats)
            check_node(acc, grid, stream, types)
            if len(prefix_rows) <= 2:
                acc.sample(layer, {"rows": ["".join(r) for r in prefix_rows], "stream": fmt_stream(stream)})
            if len(prefix_rows) < maxrows:
                for r in rows:
                    acc.count("transitions")
                    rec(prefix_rows + [r])

        # A shard owns one prefix node and the whole subtree below it; the root shard
        # owns the nodes shorter than the shard prefixes.
        if prefix == "root":
            plen = shard[4]
            def short(prefix_rows):
                stream = N.stream_of(prefix_rows, beats)
                check_node(acc, grid, stream, types)
                acc.sample(layer, {"rows": ["".join(r) for r in prefix_rows], "stream": fmt_stream(stream)})
                if len(prefix_rows) + 1 < plen:
                    for r in rows:
                        acc.count("transitions")
                        short(prefix_rows + [r])
            short([])
            acc.layer(layer, columns=cols, alphabet=list(alphabet), max_rows=maxrows, exhaustive=True)
        else:
            acc.count("transitions")
            rec(list(prefix))
    elif kind == "long":
        _, idx, thorough = shard
        label, cols, stream = N.long_streams(thorough)[idx]
        layer = "L long streams"
        istream = [N.to_impl(x) for x in stream]
        case = {"kind": "long", "index": idx, "thorough": thorough, "label": label}
        core.guard(acc, case)
        n = 0
        incs = [tuple(M.ALL_TYPES), tuple(M.STEP_TYPES), (M.HOLD, M.ROLL, M.TAIL)]
        for inc in incs:
            for mode in N.MODES:
                for cfg in [(inc, mode, False, M.RAISE, M.RAISE), (inc, mode, True, M.KEEP, M.KEEP), (inc, mode, True, M.DROP, M.DROP), (inc, mode, True, M.RAISE, M.RAISE)]:
                    core.guard(acc, dict(case, cfg=core.jsonable(cfg)))
                    r = eval_group(stream, istream, *cfg)
                    n += 1
                    if r is not None:
                        acc.violation("group_notes output differs from the documented rules (long stream)", dict(case, cfg=core.jsonable(cfg)),
                                      "model (" + str(len(r[0][1])) + " groups)" if r[0][0] == "ok" else r[0], r[1] if r[1][0] != "ok" else f"{len(r[1][1])} groups, first difference at " + str(next((i for i, (a, b) in enumerate(zip(r[0][1], r[1][1])) if a != b), "the end")),
                                      signature=("long-group", cfg[1], cfg[2]))
        for fn, kw in count_configs([], []) + [("count_steps", {"include": inc, "mode": m, "minimum": k}) for inc in incs for m in N.MODES for k in (1, 2, 3)]:
            r = eval_count(stream, istream, fn, kw)
            n += 1
            if r is not None:
                acc.violation(f"{fn} differs from the documented count (long stream)", dict(case, fn=fn, kw=core.jsonable(kw)), r[0], r[1], signature=("long-count", fn))
        acc.count("evaluations", n)
        acc.count("states")
        acc.count("transitions")
        acc.count("nontrivial")
        acc.outcome("long stream")
        acc.sample(layer, {"label": label, "notes": len(stream)})
    elif kind == "corpus":
        _, idx = shard
        name, sf, chart = N.corpus_charts()[idx]
        istream = list(N.NoteData(chart))
        stream = [N.from_impl(n) for n in istream]
        present = sorted(set(n[2] for n in stream))
        incs = [tuple(M.ALL_TYPES), tuple(M.STEP_TYPES), (M.HOLD, M.TAIL), (M.ROLL, M.TAIL), (M.HOLD, M.ROLL, M.TAIL)]
        incs += [(t,) for t in present] + [tuple(x for x in M.ALL_TYPES if x != t) for t in present]
        n = 0
        core.guard(acc, {"kind": "corpus", "chart": name})
        for inc in incs:
            for mode in N.MODES:
                cfgs = [(inc, mode, False, M.RAISE, M.RAISE)] + [(inc, mode, True, hp, tp) for hp in N.POLICIES for tp in N.POLICIES]
                for cfg in cfgs:
                    r = eval_group(stream, istream, *cfg)
                    n += 1
                    if r is not None:
                        acc.violation("group_notes output differs from the documented rules (corpus chart)",
                                      {"kind": "corpus", "chart": name, "cfg": cfg}, "model", "differs",
                                      signature=("corpus-group", cfg[1], cfg[2]))
        for fn, kw in count_configs([], []) + [("count_steps", {"include": inc, "mode": m, "minimum": k}) for inc in incs for m in N.MODES for k in (1, 2, 3)]:
            r = eval_count(stream, istream, fn, kw)
            n += 1
            if r is not None:
                acc.violation(f"{fn} differs from the documented count (corpus chart)",
                              {"kind": "corpus", "chart": name, "fn": fn, "kw": kw}, r[0], r[1], signature=("corpus-count", fn))
        acc.count("evaluations", n)
        acc.count("states")
        acc.count("nontrivial")
        acc.count("corpus_charts")
        acc.sample("corpus", {"chart": name, "notes": len(stream), "types": present})


def explore(run):
    shards = []
    for grid, (cols, alphabet, q, t) in GRIDS.items():
        maxrows = t if run.thorough() else q
        rows = N.grid_rows(cols, alphabet)
        plen = 1 if (len(rows) >= 64 or maxrows == 1) else min(2, maxrows)
        shards.append(("grid", grid, "root", maxrows, plen))
        for pre in itertools.product(rows, repeat=plen):
            shards.append(("grid", grid, pre, maxrows, plen))
    # second beat layout for grid A: rows inside one measure vs across measures
    ncorpus = len(N.corpus_charts())
    shards += [("corpus", i) for i in range(ncorpus)]
    shards += [("long", i, run.thorough()) for i in range(len(N.long_streams(run.thorough())))]
    # rotate shard order by seed (enumeration is complete for every seed)
    k = run.seed % len(shards)
    shards = shards[k:] + shards[:k]
    run.merge(core.pmap(explore_shard, shards, run.seed))
    acc = run.acc
    run.rule = (
        "construction tree: note streams built row by row on grids "
        + ", ".join(f"{g}={c}col x<={t if run.thorough() else q}rows over {' '.join(a)}" for g, (c, a, q, t) in GRIDS.items())
        + "; every node checked under every subset of the grid's note types x 3 same-beat modes x "
        "(join off + join on x 3x3 orphan policies) and all count_* option combinations; plus every corpus chart. "
        "A state is a distinct stream; non-trivial = contains a head/tail or two notes on one beat."
        + " L: long streams (a hold open over / a roll interrupted after 1023..4097 notes, a tap followed by 2047..2049 two-note rows, three-note rows, 1500 short holds; thorough up to 65537) x 3 include sets x 3 modes x join settings x all counters."
    )
    run.assumptions = [
        "reference model mc/models/notes.py is the specification of grouping/counting",
        "streams are position-sorted single-player streams with at most one note per cell",
        "which of several RAISE-policy orphans is reported first is not claimed",
    ]
    core.require(acc.outcomes["long stream"] > 0, "no long stream")
    core.require(acc.outcomes["joined pair"] > 0, "no joined pair seen")
    core.require(acc.outcomes["kept orphan"] > 0, "no kept orphan seen")
    core.require(acc.outcomes["dropped orphan"] > 0, "no dropped orphan seen")
    core.require(acc.outcomes["must raise"] > 0, "no raising case seen")
    core.require(acc.outcomes["same-beat notes"] > 0, "no same-beat notes seen")
    core.require(acc.c["corpus_charts"] > 0, "no corpus chart")
    return run.finish(
        states=acc.c["states"],
        transitions=acc.c["transitions"],
        evaluations=acc.c["evaluations"],
        distinct_nontrivial=acc.c["nontrivial"],
    )
