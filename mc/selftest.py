"""setup_cmd: verify that the explorer can run here (offline, from files on disk only)."""
import sys

from . import core


def main():
    sf = core.import_simfile()
    import msdparser  # noqa
    import fs.memoryfs  # noqa

    # tiny end-to-end exercise of Acc / pmap / merge
    def shard(acc, k):
        for i in range(k):
            acc.count("n")
        acc.sample("t", {"k": k})

    total = core.pmap(shard, [1, 2, 3, 4], nproc=2)
    assert total.c["n"] == 10, total.c
    print(f"selftest ok: simfile from {sf.__file__}, python {sys.version.split()[0]}, workers {core.NPROC}")
    return 0


if __name__ == "__main__":
    sys.exit(main())
