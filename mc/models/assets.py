"""Reference model of asset lookup (never imports simfile): documented name patterns per asset kind."""
import os

IMAGE_PRIORITY = (".png", ".jpg", ".jpeg", ".gif", ".bmp")
AUDIO = (".mp3", ".oga", ".ogg", ".wav")
KINDS = ("BANNER", "BACKGROUND", "CDTITLE", "JACKET", "CDIMAGE", "MUSIC")


def stem(name):
    return os.path.splitext(name)[0].lower()


def matches(kind, name):
    s = stem(name)
    if kind == "BANNER":
        return "banner" in s or s.endswith("bn")
    if kind == "BACKGROUND":
        return "background" in s or s.endswith("bg")
    if kind == "CDTITLE":
        return "cdtitle" in s
    if kind == "JACKET":
        return s.startswith("jk_") or "jacket" in s or "albumart" in s
    if kind == "CDIMAGE":
        return s.endswith("-cd")
    if kind == "MUSIC":
        return name.lower().endswith(AUDIO)
    raise ValueError(kind)


def acceptable(kind, value, tree):
    """
    tree: {entry name: None (file) | {sub entry: None}} - the simfile directory.
    Returns the set of acceptable answers as tuples of path components below the
    directory; the empty set means the answer must be None.
    """
    if value:
        parts = value.replace("\\", "/").split("/")
        dirparts, fname = parts[:-1], parts[-1]
        node = tree
        ok = True
        stack = [tree]  # the directories walked through; '..' steps back (only below the simfile directory)
        walked = []
        for d in dirparts:
            if d in ("", "."):
                continue
            if d == "..":
                if len(stack) > 1:
                    stack.pop()
                    walked.pop()
                    continue
                ok = False
                break
            node = stack[-1]
            if isinstance(node, dict) and isinstance(node.get(d), dict):
                stack.append(node[d])
                walked.append(d)
            else:
                ok = False
                break
        node = stack[-1]
        if ok and isinstance(node, dict):
            hits = {tuple(walked + [n]) for n in node if n.lower() == fname.lower()}
            if hits:
                return hits
    return {(n,) for n in tree if matches(kind, n)}


def pack_banner_acceptable(inside, beside, packname):
    """
    inside: names directly in the pack; beside: names next to the pack directory.
    Returns (acceptable answers, whether None is acceptable).  "Carrying the pack's name" is exact for the
    answer that is demanded; a name that differs from pack name + extension only by letter case is
    tolerated as an answer (the statement does not say), never demanded.
    """
    for ext in IMAGE_PRIORITY:
        hits = {("in", n) for n in inside if n.lower().endswith(ext)}
        if hits:
            return hits, False
    exact = set()
    for ext in IMAGE_PRIORITY:
        if packname + ext in beside:
            exact = {("beside", packname + ext)}
            break
    loose = {("beside", n) for n in beside for ext in IMAGE_PRIORITY if n.lower() == (packname + ext).lower()}
    return exact | loose, not exact
