"""
Reference model for note data, grouping, counting and ungrouping.

Pure Python, never imports simfile.  A note is a plain tuple
    (beat: Fraction, column: int, type: str, player: int, keysound: int|None)
and a joined hold/roll is
    (beat, column, type, tail_beat, player, keysound)
(the field orders of the library's Note / NoteWithTail named tuples, so that tuple(n)
of an implementation object is directly comparable once its NoteType is mapped to
its character).
"""
import re
from fractions import Fraction
from math import gcd

TAP, HOLD, TAIL, ROLL, ATTACK, FAKE, KEYSOUND, LIFT, MINE = "1", "2", "3", "4", "A", "F", "K", "L", "M"
ALL_TYPES = (TAP, HOLD, TAIL, ROLL, ATTACK, FAKE, KEYSOUND, LIFT, MINE)
HEADS = (HOLD, ROLL)
STEP_TYPES = (TAP, HOLD, ROLL, LIFT)

RAISE, KEEP, DROP = "RAISE_EXCEPTION", "KEEP_ORPHAN", "DROP_ORPHAN"
SEPARATE, BY_TYPE, JOIN_ALL = "KEEP_SEPARATE", "JOIN_BY_NOTE_TYPE", "JOIN_ALL"

_CELL = re.compile(r"(.)(?:\[(\d+)\])?")


# ---------------------------------------------------------------------------
# C07: independent reader
# ---------------------------------------------------------------------------


def read_notedata(text):
    """
    Independent reader of well-formed note data.  Returns (notes, columns) where
    columns is the width of the first row.
    """
    notes = []
    columns = None
    for p, section in enumerate(text.split("&")):
        for m, measure in enumerate(section.split(",")):
            rows = [r.strip() for r in measure.strip().splitlines()]
            n = len(rows)
            for r, row in enumerate(rows):
                cells = _CELL.findall(row)
                if columns is None:
                    columns = len(cells)
                for c, (ch, ks) in enumerate(cells):
                    if ch != "0":
                        notes.append(
                            (
                                Fraction(4 * m) + Fraction(4 * r, n),
                                c,
                                ch,
                                p,
                                int(ks) if ks != "" else None,
                            )
                        )
    return notes, columns


def position(note):
    return (note[3], note[0], note[1]) if len(note) == 5 else (note[4], note[0], note[1])


# ---------------------------------------------------------------------------
# C08: structure of canonical note data
# ---------------------------------------------------------------------------


def lcm(a, b):
    return a * b // gcd(a, b)


def expected_structure(stream):
    """
    For a position-sorted stream: list (per player section 0..max player) of lists
    (per measure 0..last measure of that player) of expected row counts.  The empty
    stream is one section with one four-row measure.
    """
    if not stream:
        return [[4]]
    max_player = max(n[3] for n in stream)
    out = []
    for p in range(max_player + 1):
        mine = [n for n in stream if n[3] == p]
        if not mine:
            out.append([4])
            continue
        last_measure = max(int(n[0] // 4) for n in mine)
        sec = []
        for m in range(last_measure + 1):
            q = 1
            for n in mine:
                if int(n[0] // 4) == m:
                    q = lcm(q, n[0].denominator)
            sec.append(4 * q)
        out.append(sec)
    return out


def observed_structure(text):
    """Row counts per measure per player section of a note data text."""
    return [
        [len(measure.strip().splitlines()) for measure in section.split(",")]
        for section in text.split("&")
    ]


# ---------------------------------------------------------------------------
# C09: grouping
# ---------------------------------------------------------------------------


class Raises(Exception):
    """The model's way of saying: this call must raise OrphanedNoteException."""

    def __init__(self, candidates):
        self.candidates = candidates


def join_model(stream, head_policy, tail_policy):
    """
    One pass with an open head per column.  Returns (output list, dropped notes,
    kept orphans); raises Raises(candidates) when an orphan meets a RAISE policy
    (candidates = every orphan whose policy is RAISE; which of them the
    implementation reports first is not claimed).
    """
    out = []  # slots: note tuple, joined tuple or None (dropped)
    held = {}  # column -> slot index of the open head
    dropped = []
    kept_orphans = []
    raising = []

    def orphan_head(idx):
        head = out[idx]
        if head_policy == RAISE:
            raising.append(head)
        elif head_policy == DROP:
            dropped.append(head)
            out[idx] = None
        else:
            kept_orphans.append(head)

    for note in stream:
        col, typ = note[1], note[2]
        if col in held or typ == TAIL:
            idx = held.pop(col, None)
            if idx is None:
                # a tail with no open head
                if tail_policy == RAISE:
                    raising.append(note)
                elif tail_policy == KEEP:
                    kept_orphans.append(note)
                    out.append(note)
                else:
                    dropped.append(note)
            elif typ != TAIL:
                orphan_head(idx)
            else:
                h = out[idx]
                out[idx] = (h[0], h[1], h[2], note[0], h[3], h[4])
        if typ in HEADS:
            held[col] = len(out)
        if typ != TAIL:
            out.append(note)
    for idx in held.values():
        orphan_head(idx)
    if raising:
        raise Raises(raising)
    return [n for n in out if n is not None], dropped, kept_orphans


def rows_model(notes, mode):
    """Split an (output-ordered) list into groups according to the same-beat mode."""
    groups = []
    i = 0
    n = len(notes)
    while i < n:
        j = i
        while j < n and notes[j][0] == notes[i][0]:
            j += 1
        row = notes[i:j]
        if mode == SEPARATE:
            groups.extend([x] for x in row)
        elif mode == JOIN_ALL:
            groups.append(row)
        else:
            seen = []
            for x in row:
                if x[2] not in seen:
                    seen.append(x[2])
            for t in seen:
                groups.append([x for x in row if x[2] == t])
        i = j
    return groups


def group_model(stream, include, mode, join, head_policy=RAISE, tail_policy=RAISE):
    filtered = [n for n in stream if n[2] in include]
    if join:
        notes, _, _ = join_model(filtered, head_policy, tail_policy)
    else:
        notes = filtered
    return rows_model(notes, mode)


# counting, computed directly on the stream (not through the grouping model)


def count_groups_direct(stream, include, mode, minimum):
    sel = [n for n in stream if n[2] in include]
    if mode == SEPARATE:
        return len(sel) if minimum <= 1 else 0
    classes = {}
    for n in sel:
        key = n[0] if mode == JOIN_ALL else (n[0], n[2])
        classes[key] = classes.get(key, 0) + 1
    return sum(1 for v in classes.values() if v >= minimum)


def count_mines_direct(stream):
    return sum(1 for n in stream if n[2] == MINE)


def count_holds_model(stream, head_type, head_policy, tail_policy):
    """Number of items joining emits for that head type and tails (may raise Raises)."""
    filtered = [n for n in stream if n[2] in (head_type, TAIL)]
    notes, _, _ = join_model(filtered, head_policy, tail_policy)
    return len(notes)


# ---------------------------------------------------------------------------
# C10: ungrouping
# ---------------------------------------------------------------------------


def ungroup_expected(stream, include, join, head_policy, tail_policy):
    """
    The plain stream ungrouping must give back: the included notes minus exactly the
    orphans that grouping dropped, in the original order.
    """
    filtered = [n for n in stream if n[2] in include]
    if not join:
        return filtered
    _, dropped, _ = join_model(filtered, head_policy, tail_policy)
    remaining = list(filtered)
    for d in dropped:
        remaining.remove(d)
    return remaining
