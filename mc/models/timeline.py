"""
Exact rational reference timeline (never imports simfile).

A timeline is built from
    bpms   [(beat, bpm)]      first at beat 0, beats strictly increasing
    stops  [(beat, seconds)]
    delays [(beat, seconds)]
    warps  [(beat, length in beats)]
    offset seconds
all Fractions.  Semantics (property C11):

    arrive(b) = -offset + integral_0^b [x not in W] * 60/bpm(x) dx
                + sum of stops and delays on beats < b
    time_at(b, tag) = arrive(b) + delay(b)*[tag >= DELAY_END] + stop(b)*[tag >= STOP_END]

with W the union of the warp segments [start, start+length) (touching or overlapping
segments merge) and bpm(x) the value of the last BPM change at or before x (the
first BPM for x < 0).
"""
from bisect import bisect_right
from fractions import Fraction

WARP, WARP_END, BPM, DELAY, DELAY_END, STOP, STOP_END = range(7)
TAGS = (WARP, WARP_END, BPM, DELAY, DELAY_END, STOP, STOP_END)
TAG_NAMES = ("WARP", "WARP_END", "BPM", "DELAY", "DELAY_END", "STOP", "STOP_END")
TICK = Fraction(1, 48)


class Timeline:
    def __init__(self, bpms, stops=(), delays=(), warps=(), offset=Fraction(0)):
        self.bpms = [(Fraction(b), Fraction(v)) for b, v in bpms]
        self.stops = {Fraction(b): Fraction(v) for b, v in stops}
        self.delays = {Fraction(b): Fraction(v) for b, v in delays}
        self.offset = Fraction(offset)
        assert self.bpms and self.bpms[0][0] == 0
        # union of warps
        segs = []
        for b, ln in sorted((Fraction(b), Fraction(ln)) for b, ln in warps):
            # a warp's length is a beat count read from decimal text: like every such beat it snaps to the
            # 1/48 grid (C14); a positive length below half a tick is therefore an empty segment
            ln = Fraction(round(ln * 48), 48)
            if ln <= 0:
                continue
            s, e = b, b + ln
            if segs and s <= segs[-1][1]:
                if e > segs[-1][1]:
                    segs[-1][1] = e
            else:
                segs.append([s, e])
        self.warps = [(s, e) for s, e in segs]
        # breakpoints: every beat at which slope or pause changes
        pts = {Fraction(0)}
        pts.update(b for b, _ in self.bpms)
        pts.update(self.stops)
        pts.update(self.delays)
        for s, e in self.warps:
            pts.add(s)
            pts.add(e)
        self.points = sorted(pts)
        # arrive time at each breakpoint, exact
        self.arrive_at = []
        t = -self.offset
        prev = None
        for p in self.points:
            if prev is not None:
                t += self.pause(prev)
                if not self.in_warp(prev):
                    t += (p - prev) * 60 / self.bpm(prev)
            self.arrive_at.append(t)
            prev = p
        self.slowest = min(v for _, v in self.bpms)

    # -- elementary facts -------------------------------------------------
    def bpm(self, b):
        cur = self.bpms[0][1]
        for bb, v in self.bpms:
            if bb <= b:
                cur = v
            else:
                break
        return cur

    def in_warp(self, b):
        return any(s <= b < e for s, e in self.warps)

    def pause(self, b):
        return self.stops.get(b, 0) + self.delays.get(b, 0)

    def has_pause(self, b):
        return b in self.stops or b in self.delays

    def hittable(self, b):
        return not (self.in_warp(b) and not self.has_pause(b))

    # -- beat -> time -------------------------------------------------------
    def arrive(self, b):
        b = Fraction(b)
        if b <= 0:
            # the first BPM applies before beat zero; nothing is warped or paused there
            # (b == 0 included: arrive(0) = -offset)
            return -self.offset + b * 60 / self.bpms[0][1]
        i = bisect_right(self.points, b) - 1
        p = self.points[i]
        t = self.arrive_at[i]
        if b > p:
            t += self.pause(p)
            if not self.in_warp(p):
                t += (b - p) * 60 / self.bpm(p)
        return t

    def time_at(self, b, tag=STOP):
        b = Fraction(b)
        t = self.arrive(b)
        if tag >= DELAY_END:
            t += self.delays.get(b, 0)
        if tag >= STOP_END:
            t += self.stops.get(b, 0)
        return t

    def depart(self, b):
        return self.time_at(b, STOP_END)

    # -- time -> beat (property C12) ---------------------------------------
    # With breakpoints p_0 = 0 < p_1 < ... < p_n:  A_i = arrive(p_i), D_i = depart(p_i),
    # and for b strictly between p_i and p_{i+1}: arrive(b) = depart(b) = D_i + (b - p_i) * slope_i
    # (slope_i = 0 inside a warp).  Both arrive and depart are non-decreasing in b.

    def _tables(self):
        if not hasattr(self, "_A"):
            self._A = list(self.arrive_at)
            self._D = [a + self.pause(p) for a, p in zip(self.arrive_at, self.points)]
            self._S = [Fraction(0) if self.in_warp(p) else Fraction(60) / self.bpm(p) for p in self.points]
            assert self._S[-1] > 0
        return self._A, self._D, self._S

    def furthest_beat(self, t):
        """B_default(t) = sup{b : arrive(b) <= t} (exact, may be off the tick grid)."""
        t = Fraction(t)
        A, D, S = self._tables()
        if t < A[0]:
            return (t + self.offset) * self.bpms[0][1] / 60
        i = max(k for k in range(len(A)) if A[k] <= t)
        if D[i] <= t and S[i] > 0:
            return self.points[i] + (t - D[i]) / S[i]
        return self.points[i]

    def stretch_start(self, t):
        """B_warp(t) = inf{b : depart(b) >= t}."""
        t = Fraction(t)
        A, D, S = self._tables()
        if t <= A[0]:
            return (t + self.offset) * self.bpms[0][1] / 60
        later = [k for k in range(len(D)) if D[k] >= t]
        if not later:
            return self.points[-1] + (t - D[-1]) / S[-1]
        i = later[0]
        if i == 0:
            return self.points[0]
        j = i - 1
        if S[j] > 0:
            b = self.points[j] + (t - D[j]) / S[j]
            if b < self.points[i]:
                return b
        return self.points[i]

    def paused_beat(self, t, margin=Fraction(0)):
        """The beat b with arrive(b) + margin < t < depart(b) - margin (strictly inside its pause), else None."""
        t = Fraction(t)
        for p in self.points:
            if self.has_pause(p) and self.arrive(p) + margin < t < self.depart(p) - margin:
                return p
        return None

    def near_pause_edge(self, t, margin):
        t = Fraction(t)
        return any(
            self.has_pause(p) and (abs(t - self.arrive(p)) <= margin or abs(t - self.depart(p)) <= margin)
            for p in self.points
        )

    def rounding_tie(self, t, margin=Fraction(1, 10**6)):
        """True when the exact beat at time t lies (almost) exactly half-way between two ticks."""
        b = self.furthest_beat(t)
        frac = (b * 48) % 1
        return abs(frac - Fraction(1, 2)) <= margin

    def event_times(self):
        ts = set()
        for p in self.points:
            for tag in (WARP, DELAY_END, STOP_END):
                ts.add(self.time_at(p, tag))
        return sorted(ts)
