"""
Reference model of the SM <-> SSC conversions (never imports simfile).

The property-kind table, the default behaviour per kind and the default values are
transcribed from the library's documented tables at the pinned revision
(simfile.convert: INVALID_PROPERTIES, INVALID_PROPERTY_BEHAVIORS, DEFAULT_PROPERTIES);
the *algorithm* below is written from the property statement.
"""
from decimal import Decimal, InvalidOperation

VERSION, METADATA, FILE_PATH, GAMEPLAY, TIMING = "SSC_VERSION", "METADATA", "FILE_PATH", "GAMEPLAY_EVENT", "TIMING_DATA"
KINDS = (VERSION, METADATA, FILE_PATH, GAMEPLAY, TIMING)
COPY, IGNORE, UNLESS_DEFAULT, ERROR = "COPY_ANYWAY", "IGNORE", "ERROR_UNLESS_DEFAULT", "ERROR"
BEHAVIORS = (COPY, IGNORE, UNLESS_DEFAULT, ERROR)

SIMFILE_KIND = {
    "VERSION": VERSION,
    "ORIGIN": METADATA, "TIMESIGNATURES": METADATA, "LABELS": METADATA, "MUSICLENGTH": METADATA, "LASTSECONDHINT": METADATA,
    "PREVIEWVID": FILE_PATH, "JACKET": FILE_PATH, "CDIMAGE": FILE_PATH, "DISCIMAGE": FILE_PATH, "PREVIEW": FILE_PATH,
    "COMBOS": GAMEPLAY, "SPEEDS": GAMEPLAY, "SCROLLS": GAMEPLAY, "FAKES": GAMEPLAY,
    "WARPS": TIMING,
}
CHART_KIND = {
    "CHARTNAME": METADATA, "CHARTSTYLE": METADATA, "CREDIT": METADATA, "DISPLAYBPM": METADATA, "TIMESIGNATURES": METADATA, "LABELS": METADATA,
    "TICKCOUNTS": GAMEPLAY, "COMBOS": GAMEPLAY, "SPEEDS": GAMEPLAY, "SCROLLS": GAMEPLAY, "FAKES": GAMEPLAY, "ATTACKS": GAMEPLAY,
    "OFFSET": TIMING, "BPMS": TIMING, "STOPS": TIMING, "DELAYS": TIMING, "WARPS": TIMING,
}
DEFAULT_BEHAVIOR = {VERSION: IGNORE, METADATA: IGNORE, FILE_PATH: IGNORE, GAMEPLAY: UNLESS_DEFAULT, TIMING: UNLESS_DEFAULT}
DEFAULT_VALUE = {
    "TIMESIGNATURES": "0.000=4=4", "TICKCOUNTS": "0.000=4", "COMBOS": "0.000=1",
    "SPEEDS": "0.000=1.000=0.000=0", "SCROLLS": "0.000=1.000", "LABELS": "0.000=Song Start",
}
SM_FIELDS = ("STEPSTYPE", "DESCRIPTION", "DIFFICULTY", "METER", "RADARVALUES", "NOTES")


class Raises(Exception):
    def __init__(self, kind, prop=None):
        self.kind = kind
        self.prop = prop


def default_of(prop):
    return DEFAULT_VALUE.get(prop, "")


def decide(prop, value, table, mapping):
    """True = copy, False = leave out, or raises Raises('InvalidPropertyException', prop)."""
    kind = table.get(prop)
    if kind is None:
        return True
    beh = mapping.get(kind) or DEFAULT_BEHAVIOR[kind]
    if beh == COPY:
        return True
    if beh == IGNORE:
        return False
    if beh == UNLESS_DEFAULT and value.strip() == default_of(prop):
        return False
    raise Raises("InvalidPropertyException", prop)


def put(items, key, value):
    for i, (k, _) in enumerate(items):
        if k == key:
            items[i] = (key, value)
            return
    items.append((key, value))


def ssc_to_sm(src_items, src_charts, mapping, template_items, template_charts, chart_template_fields):
    """
    src_charts: list of item lists. template_*: the content of the template used (the
    caller's or the blank one). Returns (items, charts) with charts as lists of six fields.
    """
    d = dict(src_items)
    warps = d.get("WARPS")
    if warps is not None and warps.strip():
        raise Raises("NotImplementedError")
    out = list(template_items)
    for k, v in src_items:
        if decide(k, v, SIMFILE_KIND, mapping):
            put(out, k, v)
    charts = [list(c) for c in template_charts]
    for items in src_charts:
        fields = list(chart_template_fields)
        for k, v in items:
            if decide(k, v, CHART_KIND, mapping):
                if k not in SM_FIELDS:
                    raise Raises("KeyError-known-finding", k)
                fields[SM_FIELDS.index(k)] = v
        charts.append(fields)
    return out, charts


def events_negative(s):
    """Does a timing string contain a negative value?"""
    if s is None or not s.strip():
        return False
    for row in s.split(","):
        _, v = row.strip().split("=")
        try:
            if Decimal(v) < 0:
                return True
        except InvalidOperation:
            return False
    return False


def sm_to_ssc(src_items, src_charts, template_items, template_charts, chart_template_items):
    """src_charts: list of six-field lists. Returns (items, charts as item lists)."""
    d = dict(src_items)
    stops = d["STOPS"] if "STOPS" in d else d.get("FREEZES")
    if events_negative(d.get("BPMS")) or events_negative(stops):
        raise Raises("NotImplementedError")
    out = list(template_items)
    for k, v in src_items:
        put(out, k, v)
    charts = [list(c) for c in template_charts]
    for fields in src_charts:
        items = list(chart_template_items)
        for k, v in zip(SM_FIELDS, fields):
            put(items, k, v)
        charts.append(items)
    return out, charts
