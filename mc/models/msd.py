"""
Reference model of the documented loading and serialization rules, applied to the
MSD parameters the *trusted tokenizer* (msdparser.parse_msd) yields.  Never imports
simfile.

A model simfile is a dict
    {"type": "sm" | "ssc", "items": [(key, value|None), ...], "charts": [...]}
with SM charts   {"fields": [six strings], "extra": [str, ...] | None}
and  SSC charts  {"items": [(key, value|None), ...]}.
"""
from msdparser import MSDParameter, MSDParserError, parse_msd

MULTI = ("ATTACKS", "DISPLAYBPM")
SM_FIELDS = ("STEPSTYPE", "DESCRIPTION", "DIFFICULTY", "METER", "RADARVALUES", "NOTES")


class Rejected(Exception):
    """The documented rules reject the input; .kinds lists the acceptable exception classes."""

    def __init__(self, *kinds):
        self.kinds = kinds


def tokenize(text, ignore_stray):
    """('ok', [components tuple, ...]) | ('stray',) | ('assert',)  -- the trusted tokenizer's verdict."""
    try:
        return ("ok", [tuple(p.components) for p in parse_msd(string=text, ignore_stray_text=ignore_stray)])
    except MSDParserError:
        return ("stray",)
    except AssertionError:
        return ("assert",)


def put(items, key, value):
    """Ordered-dict assignment: a repeated key keeps its first position and takes the last value."""
    for i, (k, _) in enumerate(items):
        if k == key:
            items[i] = (key, value)
            return
    items.append((key, value))


def value_of(key, comps):
    if key in MULTI:
        # a key-only ATTACKS / DISPLAYBPM parameter: "no value" (None); '' is accepted too (see DESIGN C03)
        return ":".join(comps[1:]) if len(comps) > 1 else None
    return comps[1] if len(comps) > 1 else None


def sm_chart(comps):
    vals = comps
    if len(vals) < 6:
        raise Rejected("ValueError")
    return {"fields": [v.strip() for v in vals[:6]], "extra": list(vals[6:]) if len(vals) > 6 else None}


def load_sm(params):
    items, charts = [], []
    for comps in params:
        key = comps[0].upper()
        if key == "NOTES":
            charts.append(sm_chart(comps[1:]))
        else:
            put(items, key, value_of(key, comps))
    return {"type": "sm", "items": items, "charts": charts}


def load_ssc(params):
    items, charts = [], []
    chart = None
    for comps in params:
        key = comps[0].upper()
        if key == "NOTEDATA":
            chart = {"items": []}
            charts.append(chart)
        elif chart is not None:
            put(chart["items"], key, value_of(key, comps))
        else:
            put(items, key, value_of(key, comps))
    return {"type": "ssc", "items": items, "charts": charts}


def detect(params):
    return "ssc" if params and params[0][0].upper() == "VERSION" else "sm"


def by_name(name):
    low = name.lower()
    if low.endswith(".ssc"):
        return "ssc"
    if low.endswith(".sm"):
        return "sm"
    return None


def load(text, strict, fmt=None):
    """
    The expected result of loading `text`.  Returns a model simfile, or raises
    Rejected(kinds).  fmt None = auto-detect by the first parameter.
    """
    tok = tokenize(text, ignore_stray=not strict)
    if tok[0] == "assert":
        raise Rejected("excluded")
    if tok[0] == "stray":
        # strict and stray text: the parser's error; if a short NOTES parameter precedes the stray
        # text either error is acceptable (the statement does not order them)
        lenient = tokenize(text, ignore_stray=True)
        kinds = ["MSDParserError"]
        if lenient[0] == "ok":
            f = fmt or detect(lenient[1])
            if f == "sm":
                try:
                    load_sm(lenient[1])
                except Rejected:
                    kinds.append("ValueError")
        raise Rejected(*kinds)
    params = tok[1]
    f = fmt or detect(params)
    return load_sm(params) if f == "sm" else load_ssc(params)


def load_ssc_chart(text, strict):
    """
    SSCChart.from_str: the first parameter must be NOTEDATA, the following ones are the
    chart's items, and parsing ends at the NOTES / NOTES2 parameter (text behind it is
    never looked at - so the tokenizer is consumed lazily here, too).
    """
    if tokenize(text, ignore_stray=True)[0] == "assert":
        raise Rejected("excluded")
    it = parse_msd(string=text, ignore_stray_text=not strict)
    items = []
    try:
        try:
            first = next(it)
        except StopIteration:
            raise Rejected("excluded")  # not chart-shaped at all
        if first.key.upper() != "NOTEDATA":
            raise Rejected("ValueError")
        for p in it:
            comps = tuple(p.components)
            key = comps[0].upper()
            put(items, key, value_of(key, comps))
            if key in ("NOTES", "NOTES2"):
                break
    except MSDParserError:
        raise Rejected("MSDParserError")
    except AssertionError:
        raise Rejected("excluded")
    return {"items": items}


# ---------------------------------------------------------------------------
# serialization: the parameter list the repository is supposed to emit
# ---------------------------------------------------------------------------


def param_of(key, value):
    if value is None:
        return (key,)
    if key in MULTI:
        return (key, *value.split(":"))
    return (key, value)


def sm_chart_param(chart):
    f = chart["fields"]
    return (
        "NOTES",
        f"\n     {f[0]}", f"\n     {f[1]}", f"\n     {f[2]}", f"\n     {f[3]}", f"\n     {f[4]}",
        f"\n{f[5]}\n",
        *(chart["extra"] or []),
    )


def ssc_notes_key(items):
    keys = [k for k, _ in items]
    if "NOTES" in keys:
        return "NOTES"
    if "NOTES2" in keys:
        return "NOTES2"
    return None


def expected_params(sf):
    """The list of component tuples str(simfile) must tokenize to."""
    out = [param_of(k, v) for k, v in sf["items"]]
    if sf["type"] == "sm":
        out += [sm_chart_param(c) for c in sf["charts"]]
    else:
        for c in sf["charts"]:
            out.append(("NOTEDATA", ""))
            nk = ssc_notes_key(c["items"])
            for k, v in c["items"]:
                if k != nk:
                    out.append(param_of(k, v))
            if nk is not None:
                out.append(_notes_param(nk, dict(c["items"])[nk]))
    return out


def _notes_param(key, value):
    # the note data is a single-value property whatever its content
    return (key,) if value is None else (key, value)


def canonical(sf):
    """The simfile a reload is expected to give: SSC charts with their note data moved last."""
    if sf["type"] == "sm":
        # a reloaded SM chart always has its six fields in the documented key order
        return {"type": "sm", "items": list(sf["items"]), "charts": [{"fields": list(c["fields"]), "extra": c["extra"]} for c in sf["charts"]]}
    charts = []
    for c in sf["charts"]:
        nk = ssc_notes_key(c["items"])
        items = [(k, v) for k, v in c["items"] if k != nk]
        if nk is not None:
            items.append((nk, dict(c["items"])[nk]))
        charts.append({"items": items})
    return {"type": "ssc", "items": list(sf["items"]), "charts": charts}


def write_params(params):
    return "".join(str(MSDParameter(p)) + "\n" for p in params)


def dependency_gap(params):
    """
    True when msdparser itself cannot round-trip this parameter list (written with
    MSDParameter.__str__, read back with parse_msd) - without touching the repository.
    """
    text = write_params(params)
    tok = tokenize(text, ignore_stray=False)
    return tok[0] != "ok" or tok[1] != [tuple(p) for p in params]


import re as _re

_GAP_VALUE = _re.compile(r"(?:[\r\n][:;\\]*#)|(?:///)")


def gap_explained(params):
    """
    Does one of the syntactic patterns listed in C01/C02 explain the gap?  The patterns
    are evaluated on the whole parameter as it is written (key and components joined by
    the ':' separators): a '#' that follows a line break directly or through ':', ';', '\\'
    characters only (the separators count), three or more consecutive '/', a key containing '#'.
    """
    for p in params:
        key = p[0]
        if "#" in key or "///" in key:
            return True
        joined = ":".join(p)
        if _GAP_VALUE.search(joined):
            return True
        # the serializer separates parameters by a line break, so a parameter that is written as
        # '#' + only ':', ';', '\\' characters + '#...' (empty key, value starting with '#') puts a '#'
        # behind a line break through ':' only - the same msdparser recovery heuristic
        if _re.match(r"[:;\\]*#", joined):
            return True
    return False
