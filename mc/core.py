"""
Core of the bounded exhaustive explorer used by every driver.

* imports the tree under test from $VERIF_SIMFILE_SRC (default /repo) and refuses
  to run against any other copy;
* Acc: mergeable accumulator of counters, samples, outcome classes and violations;
* pmap: deterministic sharding of disjoint sub-spaces over forked worker processes;
* watchdog: a case that does not return is reported as a violation, not a hang;
* Run: ties a driver to the command line, the known-findings file, replay files and
  the evidence file.

Nothing here samples: drivers enumerate finite spaces completely and say so per layer.
"""
import collections
import json
import multiprocessing
import os
import signal
import sys
import time
import traceback

VERIF = os.path.dirname(os.path.dirname(os.path.abspath(__file__)))
SRC = os.path.realpath(os.environ.get("VERIF_SIMFILE_SRC", "/repo"))
# where evidence/ and replays/ are written; only diverted when checks are pointed at a scratch copy (seeded changes)
OUT = os.environ.get("VERIF_OUT") or VERIF
VERIF_DIR = os.path.dirname(os.path.dirname(os.path.abspath(__file__)))
NPROC = int(os.environ.get("VERIF_NPROC", "0")) or (os.cpu_count() or 1)
STRIDE = int(os.environ.get("VERIF_SHARD_STRIDE", "0") or 0)  # > 1: reduced pass over every STRIDE-th shard (internal)
CASE_TIMEOUT_S = float(os.environ.get("VERIF_CASE_TIMEOUT", "30"))

_simfile = None


def import_simfile():
    """Import simfile from the tree under test, and only from there."""
    global _simfile
    if _simfile is None:
        import warnings

        warnings.filterwarnings("ignore")
        if sys.path[0] != SRC:
            sys.path.insert(0, SRC)
        import simfile  # noqa

        where = os.path.realpath(simfile.__file__)
        if not where.startswith(SRC + os.sep):
            raise SystemExit(
                f"machinery error: simfile imported from {where}, not from {SRC}"
            )
        _simfile = simfile
    return _simfile


def source_revision():
    import subprocess

    try:
        head = subprocess.run(
            ["git", "-C", SRC, "rev-parse", "HEAD"],
            capture_output=True,
            text=True,
            timeout=10,
        ).stdout.strip()
        dirty = subprocess.run(
            ["git", "-C", SRC, "status", "--porcelain", "--untracked-files=no"],
            capture_output=True,
            text=True,
            timeout=10,
        ).stdout.strip()
        return head + ("+dirty" if dirty else "")
    except Exception:
        return "unknown"


class WatchdogTimeout(BaseException):
    pass


def _on_alarm(signum, frame):
    raise WatchdogTimeout()


def jsonable(x, depth=0):
    """Best-effort conversion of a case/observation into JSON-safe data."""
    from fractions import Fraction
    from decimal import Decimal
    import enum

    if depth > 12:
        return repr(x)
    if x is None or isinstance(x, (bool, int, str)):
        return x
    if isinstance(x, float):
        return x if x == x and abs(x) != float("inf") else repr(x)
    if isinstance(x, enum.Enum):
        return f"{type(x).__name__}.{x.name}"
    if isinstance(x, Fraction):
        return f"{x.numerator}/{x.denominator}"
    if isinstance(x, Decimal):
        return f"Decimal({x})"
    if isinstance(x, bytes):
        return {"__bytes__": x.hex()}
    if isinstance(x, dict):
        return {
            (k if isinstance(k, str) else json.dumps(jsonable(k, depth + 1))): jsonable(
                v, depth + 1
            )
            for k, v in x.items()
        }
    if isinstance(x, (list, tuple, set, frozenset)):
        seq = list(x)
        if isinstance(x, (set, frozenset)):
            seq = sorted(seq, key=repr)
        return [jsonable(v, depth + 1) for v in seq]
    if isinstance(x, BaseException):
        return f"{type(x).__name__}: {x}"
    if isinstance(x, type):
        return x.__name__
    return repr(x)


class Acc:
    """Mergeable accumulator: everything a shard reports back to the parent."""

    MAX_VIOLATIONS_KEPT = 12
    MAX_SAMPLES_PER_LAYER = 3

    def __init__(self):
        self.c = collections.Counter()  # named counters
        self.samples = {}  # layer -> list of cases
        self.outcomes = collections.Counter()  # outcome class -> count (vacuity guards)
        self.violations = []  # dicts {clause, case, expected, observed, signature}
        self.violation_count = 0
        self._sigs = set()
        self.current = None  # the case being executed (for the watchdog)
        self.layers = {}  # layer -> dict(info)
        self.sets = {}  # name -> set of hashes (e.g. distinct state keys across shards)
        self.t0 = time.time()

    # -- counting ---------------------------------------------------------
    def count(self, name, n=1):
        self.c[name] += n

    def outcome(self, name, n=1):
        self.outcomes[name] += n

    def sample(self, layer, case):
        lst = self.samples.setdefault(layer, [])
        if len(lst) < self.MAX_SAMPLES_PER_LAYER:
            lst.append(jsonable(case))

    def layer(self, name, **info):
        d = self.layers.setdefault(name, {})
        for k, v in info.items():
            if isinstance(v, (int, float)) and not isinstance(v, bool) and k in d:
                d[k] += v
            else:
                d[k] = v

    def add_key(self, name, key):
        """Remember a state key (as a 64-bit hash) so that distinct states can be counted across shards."""
        import hashlib

        self.sets.setdefault(name, set()).add(hashlib.blake2b(key.encode("utf-8", "surrogatepass"), digest_size=8).digest())

    def distinct(self, name):
        return len(self.sets.get(name, ()))

    # -- violations -------------------------------------------------------
    def violation(self, clause, case, expected=None, observed=None, signature=None):
        self.violation_count += 1
        sig = json.dumps(
            jsonable(signature if signature is not None else clause), sort_keys=True
        )
        if sig in self._sigs or len(self.violations) >= self.MAX_VIOLATIONS_KEPT:
            return
        self._sigs.add(sig)
        self.violations.append(
            {
                "clause": clause,
                "signature": sig,
                "case": jsonable(case),
                "expected": jsonable(expected),
                "observed": jsonable(observed),
            }
        )

    # -- merging ----------------------------------------------------------
    def merge(self, other):
        self.c.update(other.c)
        self.outcomes.update(other.outcomes)
        for layer, lst in other.samples.items():
            mine = self.samples.setdefault(layer, [])
            for s in lst:
                if len(mine) < self.MAX_SAMPLES_PER_LAYER:
                    mine.append(s)
        for name, info in other.layers.items():
            if name == "_slowest_shard":
                if info["s"] > self.layers.get(name, {}).get("s", 0):
                    self.layers[name] = info
                continue
            self.layer(name, **info)
        for name, st in other.sets.items():
            self.sets.setdefault(name, set()).update(st)
        self.violation_count += other.violation_count
        for v in other.violations:
            sig = v["signature"]
            if sig in self._sigs or len(self.violations) >= self.MAX_VIOLATIONS_KEPT:
                continue
            self._sigs.add(sig)
            self.violations.append(v)


_FN = None  # the shard function, inherited by forked workers (need not be picklable)


def _worker(args):
    shard, seed = args
    fn = _FN
    acc = Acc()
    signal.signal(signal.SIGPROF, _on_alarm)
    t0 = time.time()
    try:
        fn(acc, shard)
        dt = time.time() - t0
        if dt > acc.layers.get("_slowest_shard", {}).get("s", 0):
            acc.layers["_slowest_shard"] = {"s": round(dt, 2), "shard": repr(shard)[:80]}
    except BudgetExhausted:
        acc.count("reduced_pass_shards_cut_short")
    except WatchdogTimeout:
        acc.violation(
            "watchdog: case did not return", acc.current, "termination", "timeout"
        )
    except BaseException as e:
        signal.setitimer(signal.ITIMER_PROF, 0)
        if raised_in_library(e) and not isinstance(e, (MachineryError, KeyboardInterrupt, SystemExit, MemoryError)):
            # an exception that escaped from the library under test while a clause was being evaluated is a finding
            # about the library, not a defect of the harness: report it against the case in hand
            acc.violation("an exception escaped from the library while the property was being evaluated",
                          acc.current, "no exception", f"{type(e).__name__}: {e}", signature=("escaped", type(e).__name__))
            acc.count("shards_cut_short_by_an_escaped_exception")
        else:  # machinery error inside a shard: fail loudly
            return ("error", f"shard {shard!r}: {type(e).__name__}: {e}\n{traceback.format_exc()}")
    finally:
        signal.setitimer(signal.ITIMER_PROF, 0)
    acc.current = None
    return ("ok", acc)


def raised_in_library(exc):
    """Did the exception come out of the tree under test (a frame inside SRC below the harness's last frame)?"""
    tb = exc.__traceback__
    files = []
    while tb is not None:
        files.append(os.path.realpath(tb.tb_frame.f_code.co_filename))
        tb = tb.tb_next
    mine = os.path.join(VERIF_DIR, "mc") + os.sep
    last_mine = max((i for i, f in enumerate(files) if f.startswith(mine)), default=-1)
    return any(f.startswith(SRC + os.sep) for f in files[last_mine + 1:])


def guard(acc, case):
    """
    Arm the per-case watchdog and remember the case being run.  The timer counts the CPU time of this
    process (ITIMER_PROF), not wall time: a worker that is merely starved by other load must not be
    mistaken for a case that does not return, while a loop that never ends burns CPU and is caught.
    """
    _reduced_budget(acc)
    acc.current = case
    signal.setitimer(signal.ITIMER_PROF, CASE_TIMEOUT_S)


class BudgetExhausted(Exception):
    """Reduced pass only: this shard has had its share of cases."""


REDUCED_CASES_PER_SHARD = 2000


REDUCED_CPU_S_PER_SHARD = 1.0


def _reduced_budget(acc):
    if STRIDE > 1:
        n = acc.guard_calls = getattr(acc, "guard_calls", 0) + 1
        if n == 1:
            acc.guard_t0 = time.process_time()
        if n > REDUCED_CASES_PER_SHARD or (n % 16 == 0 and time.process_time() - acc.guard_t0 > REDUCED_CPU_S_PER_SHARD):
            raise BudgetExhausted()


def guard_cheap(acc, case, _state=[0.0]):
    """As guard(), but re-arms the timer at most once a second (for µs-sized cases)."""
    _reduced_budget(acc)
    acc.current = case
    now = time.monotonic()
    if now - _state[0] > 1.0:
        _state[0] = now
        signal.setitimer(signal.ITIMER_PROF, CASE_TIMEOUT_S)


def pmap(fn, shards, seed=0, nproc=None):
    """
    Run fn(acc, shard) for every shard, in forked workers, and merge the results in
    shard order (so totals and kept samples are deterministic).  Shards must be
    disjoint sub-spaces: totals are then exact without cross-process de-duplication.
    """
    global _FN
    shards = list(shards)
    if STRIDE > 1:
        # reduced pass (see Run.optimized_pass): every STRIDE-th shard only
        shards = shards[seed % STRIDE::STRIDE]
    total = Acc()
    nproc = nproc or NPROC
    _FN = fn
    if nproc <= 1 or len(shards) <= 1:
        results = [_worker((s, seed)) for s in shards]
    else:
        ctx = multiprocessing.get_context("fork")
        with ctx.Pool(min(nproc, len(shards))) as pool:
            if os.environ.get("VERIF_FAILFAST"):
                # used by the mutation sweeps only: stop at the first shard that reports a violation
                # (the evidence of such a run is partial and says so; registered commands never set this)
                results = []
                for r in pool.imap(_worker, [(s, seed) for s in shards], chunksize=1):
                    results.append(r)
                    if r[0] == "error" or r[1].violations:
                        pool.terminate()
                        break
            else:
                results = pool.map(_worker, [(s, seed) for s in shards], chunksize=1)
    for status, payload in results:
        if status == "error":
            raise MachineryError(payload)
        total.merge(payload)
    return total


class MachineryError(Exception):
    pass


# ---------------------------------------------------------------------------
# known findings
# ---------------------------------------------------------------------------


def load_known_findings(prop):
    path = os.path.join(VERIF, "known_findings.json")
    if not os.path.exists(path):
        return []
    with open(path) as f:
        data = json.load(f)
    return [r for r in data if r.get("property") == prop]


# ---------------------------------------------------------------------------
# Run: command line, replay files, evidence
# ---------------------------------------------------------------------------


class Run:
    def __init__(self, prop, tier, seed, level="model_checking", reduced_pass=True):
        self.reduced_pass = reduced_pass
        self.prop = prop
        self.tier = tier
        self.seed = seed
        self.level = level
        self.acc = Acc()
        self.t0 = time.time()
        self.rule = ""
        self.assumptions = []
        self.known_lines = []
        self.extra = {}

    def thorough(self):
        return self.tier == "thorough"

    def merge(self, acc):
        global _HAVE_VIOLATIONS
        self.acc.merge(acc)
        if self.acc.violations:
            _HAVE_VIOLATIONS = True

    # -- known findings -----------------------------------------------------
    def run_probes(self, probe_fn):
        """
        probe_fn(probe) -> None if the probe no longer fails, or a short string
        describing how it fails.  'known' records print KNOWN-FINDING when they still
        fail in the recorded way, raise a violation when they fail differently.
        'fixed' records suppress nothing and are not probed here (their inputs stay in
        the enumerated domain).
        """
        for rec in load_known_findings(self.prop):
            if rec.get("status") != "known":
                continue
            try:
                how = probe_fn(rec["probe"])
            except Exception as e:  # the probe itself must not crash the check
                how = f"probe crashed: {type(e).__name__}: {e}"
            self.acc.count("known_finding_probes")
            if how is None:
                self.acc.count("known_findings_no_longer_failing")
                continue
            expect = rec.get("fails_as")
            if expect is not None and expect not in how:
                self.acc.violation(
                    "known finding fails differently than recorded",
                    rec["probe"],
                    expect,
                    how,
                )
            else:
                line = f"KNOWN-FINDING: property={self.prop} {rec['what']}"
                self.known_lines.append(line)
                print(line, flush=True)

    # -- finishing ----------------------------------------------------------
    def optimized_pass(self):
        """
        Environment dimension "interpreter mode": the same exploration, reduced to the first 2000 cases (at most one CPU-second) of every
        16th shard of the quick tier, once more under `python -O` (assert statements compiled away, __debug__ false).  Its violations are added
        to this run's, marked, with the interpreter flag recorded in the replay file.
        """
        import subprocess
        import tempfile
        if STRIDE > 1 or os.environ.get("VERIF_NO_OPT_PASS") or sys.flags.optimize or not self.reduced_pass:
            return
        if os.environ.get("VERIF_FAILFAST") and self.acc.violations:
            return  # sweep mode: already failing
        t0 = time.time()
        tmp = tempfile.mkdtemp(prefix="verif-opt-")
        try:
            env = dict(os.environ, VERIF_SHARD_STRIDE="16", VERIF_OUT=tmp, VERIF_TIER="quick", VERIF_SEED=str(self.seed), PYTHONHASHSEED="0", PYTHONDONTWRITEBYTECODE="1")
            p = subprocess.run([sys.executable, "-O", "-W", "ignore", "-m", "mc.run", self.prop, "--tier", "quick"], cwd=VERIF_DIR, env=env, capture_output=True, text=True, timeout=3600)
            lines = [l for l in p.stdout.splitlines() if l.startswith("REDUCED-VIOLATION ")]
            summary = [l for l in p.stdout.splitlines() if l.startswith("REDUCED-SUMMARY ")]
            if p.returncode not in (0, 1) or not summary:
                raise MachineryError("reduced pass under python -O failed: " + (p.stderr or p.stdout)[-600:])
            info = json.loads(summary[0][len("REDUCED-SUMMARY "):])
            for l in lines:
                v = json.loads(l[len("REDUCED-VIOLATION "):])
                self.acc.violation("under python -O: " + v["clause"], dict(v.get("case") or {}, interpreter="-O"), v.get("expected"), v.get("observed"), signature=("python -O", v["clause"]))
            self.extra["reduced_pass_python_O"] = {"shards": "first 2000 cases (at most one CPU-second) of every 16th shard of the quick tier", "states": info.get("states"), "evaluations": info.get("evaluations"), "violations": len(lines), "wall_s": round(time.time() - t0, 1)}
        finally:
            import shutil
            shutil.rmtree(tmp, ignore_errors=True)

    def finish(self, states, transitions, evaluations, distinct_nontrivial, exhaustive=True):
        acc = self.acc
        if STRIDE > 1:
            # reduced pass: report on stdout only (the parent run owns evidence and replays)
            for v in acc.violations:
                print("REDUCED-VIOLATION " + json.dumps(jsonable(v), ensure_ascii=True))
            print("REDUCED-SUMMARY " + json.dumps({"states": int(states), "evaluations": int(evaluations), "violations": int(acc.violation_count)}), flush=True)
            return 1 if acc.violations else 0
        self.optimized_pass()
        wall = time.time() - self.t0
        replay_paths = []
        if acc.violations:
            rdir = os.path.join(OUT, "replays", self.prop)
            os.makedirs(rdir, exist_ok=True)
            rev = source_revision()
            for i, v in enumerate(acc.violations):
                path = os.path.join(rdir, f"{self.tier}-{self.seed}-{i}.json")
                with open(path, "w") as f:
                    json.dump(
                        {
                            "property": self.prop,
                            "tier": self.tier,
                            "seed": self.seed,
                            "source": SRC,
                            "source_revision": rev,
                            **v,
                        },
                        f,
                        indent=1,
                        ensure_ascii=True,
                    )
                replay_paths.append(path)
        samples = []
        for layer, lst in sorted(acc.samples.items()):
            for s in lst:
                samples.append({"layer": layer, "case": s})
        coverage = {
            "states": int(states),
            "transitions": int(transitions),
            "traces_validated_against_impl": int(evaluations),
            "evaluations": int(evaluations),
            "distinct_nontrivial": int(distinct_nontrivial),
            "rule": self.rule,
            "samples": samples,
            "exhaustive": bool(exhaustive),
            "layers": jsonable(acc.layers),
            "counters": {k: int(v) for k, v in sorted(acc.c.items())},
            "outcomes_observed": {k: int(v) for k, v in sorted(acc.outcomes.items())},
            "known_findings_reported": self.known_lines,
            "workers": NPROC,
            "source": SRC,
            "source_revision": source_revision(),
        }
        coverage.update(self.extra)
        evidence = {
            "property_id": self.prop,
            "tier": self.tier,
            "seed": self.seed,
            "level": self.level,
            "coverage": coverage,
            "assumptions": self.assumptions,
            "wall_s": round(wall, 3),
            "violations": int(acc.violation_count),
        }
        os.makedirs(os.path.join(OUT, "evidence"), exist_ok=True)
        path = os.path.join(OUT, "evidence", f"{self.prop}.json")
        tmp = path + ".tmp"
        with open(tmp, "w") as f:
            json.dump(evidence, f, indent=1, ensure_ascii=True)
            f.write("\n")
        os.replace(tmp, path)
        print(
            f"[{self.prop}] tier={self.tier} seed={self.seed} states={states} "
            f"transitions={transitions} evaluations={evaluations} "
            f"nontrivial={distinct_nontrivial} violations={acc.violation_count} "
            f"wall={wall:.1f}s",
            flush=True,
        )
        for k, v in sorted(acc.outcomes.items()):
            print(f"   outcome {k}: {v}")
        if acc.violations:
            for v, p in zip(acc.violations, replay_paths):
                print(f"   clause: {v['clause']}")
                print(f"VIOLATION property={self.prop} replay={p}", flush=True)
            return 1
        return 0


_HAVE_VIOLATIONS = False


def require(cond, what):
    """Vacuity guard: the exploration must have seen what it is meant to see."""
    if _HAVE_VIOLATIONS:
        return  # a layer that stopped at a violation has not seen everything: the violations are the result
    if os.environ.get("VERIF_FAILFAST") or STRIDE > 1:
        return  # partial run (mutation sweep / reduced pass under another interpreter mode): incomplete by design
    if not cond:
        raise MachineryError(f"vacuity guard failed: {what}")


def outcome_of(fn, *a, **kw):
    """Run fn and return ('ok', value) or ('exc', ExceptionClassName)."""
    try:
        return ("ok", fn(*a, **kw))
    except WatchdogTimeout:
        raise
    except BaseException as e:
        return ("exc", type(e).__name__)


import contextlib
import decimal as _decimal


@contextlib.contextmanager
def decimal_precision(prec):
    """
    Environment answer: the thread's decimal context (an ambient setting any caller may have changed).
    Exact construction and printing of decimals do not depend on it; arithmetic does.
    """
    ctx = _decimal.getcontext()
    old = ctx.prec
    ctx.prec = prec
    try:
        yield
    finally:
        ctx.prec = old
